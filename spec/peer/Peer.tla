------------------------------- MODULE Peer -------------------------------
(***************************************************************************)
(* Specification of one btcd peer.Peer connection (v1 transport) at the    *)
(* granularity of the goroutines and channel operations of peer/peer.go.   *)
(*                                                                         *)
(* Processes (one pc entry each):                                          *)
(*   rm   the remote side (the harness): feeds the script, may close       *)
(*   st   Peer.start: waits for negotiation result / quit / timeout        *)
(*   ng   negotiate{In,Out}boundProtocol goroutine                         *)
(*   ih   inHandler      sh  stallHandler     qh  queueHandler             *)
(*   oh   outHandler     ph  pingHandler                                   *)
(*   s \in Senders       callers of QueueMessage(msg, doneChan)            *)
(*   iv   caller of QueueInventory                                         *)
(*   dc   caller of Disconnect                                             *)
(*                                                                         *)
(* The model starts right after AssociateConnection (connected = 1).       *)
(* Every action is either externally observable (it corresponds to one     *)
(* event the harness can log: bytes on the conn, a call/return of a public *)
(* method, a listener callback, a done-channel signal being received) or   *)
(* internal.  TracePeer.tla replays recorded event sequences through these *)
(* actions; MCPeer.tla explores all interleavings.                         *)
(*                                                                         *)
(* Fix* constants switch individual repairs on.  The current tree has all  *)
(* three (btcd 7c169cbd stall handler, c5164f45 start() drains on abort,   *)
(* e9426a69 QueueMessage selects on quit and drains behind queueHandler);  *)
(* with a constant FALSE the specification describes the code before that  *)
(* repair.                                                                 *)
(***************************************************************************)
EXTENDS Naturals, Sequences, FiniteSets

CONSTANTS
  Senders,      \* set of sender identifiers
  Cap,          \* capacity of outputQueue / outputInvChan (50 in the code)
  Timers,       \* BOOLEAN: timer driven steps (negotiate/idle/stall timeouts) enabled
  MaxPings,     \* number of ticks of pingHandler's ticker
  Scenarios,    \* set of scenario records, one is chosen in Init
  FixEarly,     \* repair: when start() fails before the handlers run the output queues are drained
  FixStall,     \* repair: stallHandler waits for inQuit AND outQuit
  FixLatePut    \* repair: QueueMessage selects on quit and drains behind a finished queueHandler

\* protocol version thresholds (wire/protocol.go, peer/peer.go)
MinAcceptablePV == 209
BIP0031PV       == 60000
RejectPV        == 70002
AddrV2PV        == 70016

Min(a, b) == IF a < b THEN a ELSE b

(* A scenario:
     dir    "in" | "out"
     lpv    protocol version configured locally
     script sequence of remote messages [k, pv, self]
            k \in {"ver","verack","sendaddrv2","unknown","ping","getaddr",
                   "malformed","wrongmagic"}
     rclose remote closes the connection after its last message
     plan   [Senders -> Seq(Nat)]  message ids each sender queues, in order
     invs   sequence over {"tx","block"} queued through QueueInventory
     disc   a Disconnect() call happens at some point
     net    "main" | "test3" | "nil" (no ChainParams: testnet3) | "regtest" | "sim"
     loop   the remote's address is 127.0.0.1 (else a routable address)
     sib    the nonce of a "self" version is the one a sibling outbound peer of
            the same process is writing in its own version message right now
            (a node that dials itself); otherwise one sent earlier           *)

RMsg(k, pv, self) == [k |-> k, pv |-> pv, self |-> self]

VARIABLES
  scn,                                     \* the scenario
  pc,                                      \* control state per process
  fed, rdn, remoteClosed, connClosed,      \* the connection
  disc, quit, inQuit, queueQuit, outQuit,  \* disconnect flag and quit channels
  versionKnown, verAck, nego, started, negRes,
  oq, sq, sdq, sc, invq,                   \* outputQueue, sendQueue, sendDoneQueue, stallControl, outputInvChan
  cur,                                     \* message being processed by ng / ih
  shIo, waiting, pending, invSend, ohMsg, pings, sidx, iidx,
  doneCnt, safe, putSeq, wireSeq, rjDone, shEarly, latePut, cbBad

connV  == <<fed, rdn, remoteClosed, connClosed>>
flagV  == <<disc, quit, inQuit, queueQuit, outQuit>>
hsV    == <<versionKnown, verAck, nego, started, negRes>>
chanV  == <<oq, sq, sdq, sc, invq>>
locV   == <<cur, shIo, waiting, pending, invSend, ohMsg, pings, sidx, iidx>>
histV  == <<doneCnt, safe, putSeq, wireSeq, rjDone, shEarly, latePut, cbBad>>
vars   == <<scn, pc, connV, flagV, hsV, chanV, locV, histV>>

PeerProcs == {"st", "ng", "ih", "sh", "qh", "oh", "ph"}
Procs     == PeerProcs \cup {"rm", "dc", "iv", "sb"} \cup Senders

Item(k, id) == [k |-> k, id |-> id]      \* element of the output queues / the wire
NoItem      == Item("none", 0)
HasDone(it) == it.k \in {"msg", "reject"}

Goto(p, l)  == pc' = [pc EXCEPT ![p] = l]

Connected   == disc = 0

AllMsgsOf(sc0) == UNION {{sc0.plan[s][i] : i \in 1..Len(sc0.plan[s])} : s \in Senders}
AllMsgs == AllMsgsOf(scn)

---------------------------------------------------------------------------
(* Init *)

\* (for documentation)
VarNames == <<"scn", "pc", "fed", "rdn", "remoteClosed", "connClosed", "disc", "quit", "inQuit",
              "queueQuit", "outQuit", "versionKnown", "verAck", "nego", "started", "negRes",
              "oq", "sq", "sdq", "sc", "invq", "cur", "shIo", "waiting", "pending", "invSend",
              "ohMsg", "pings", "sidx", "iidx", "doneCnt", "safe", "putSeq", "wireSeq", "rjDone",
              "shEarly", "latePut", "cbBad">>

InitRec(sc0) ==
  [ scn |-> sc0,
    pc  |-> [p \in Procs |->
              CASE p = "st" -> "wait"
                [] p = "ng" -> IF sc0.dir = "in" THEN "rver" ELSE "wver"
                [] p \in {"ih", "sh", "qh", "oh", "ph"} -> "off"
                [] p = "rm" -> "run"
                [] p = "sb" -> IF sc0.sib THEN "gen" ELSE "done"
                [] p = "dc" -> IF sc0.disc THEN "idle" ELSE "done"
                [] p = "iv" -> IF Len(sc0.invs) > 0 THEN "idle" ELSE "done"
                [] OTHER    -> IF Len(sc0.plan[p]) > 0 THEN "idle" ELSE "done"],
    fed |-> 0, rdn |-> 0, remoteClosed |-> FALSE, connClosed |-> FALSE,
    disc |-> 0, quit |-> FALSE, inQuit |-> FALSE, queueQuit |-> FALSE, outQuit |-> FALSE,
    versionKnown |-> FALSE, verAck |-> FALSE, nego |-> sc0.lpv, started |-> FALSE, negRes |-> "none",
    oq |-> <<>>, sq |-> <<>>, sdq |-> 0, sc |-> 0, invq |-> <<>>,
    cur |-> [p \in {"ng", "ih"} |-> 0],
    shIo |-> FALSE, waiting |-> FALSE, pending |-> <<>>, invSend |-> <<>>, ohMsg |-> NoItem,
    pings |-> 0, sidx |-> [s \in Senders |-> 1], iidx |-> 1,
    doneCnt |-> [m \in AllMsgsOf(sc0) |-> 0], safe |-> {}, putSeq |-> <<>>, wireSeq |-> <<>>,
    rjDone |-> 0, shEarly |-> FALSE, latePut |-> FALSE, cbBad |-> FALSE ]

InitFor(sc0) ==
  LET r == InitRec(sc0) IN
  /\ scn = r.scn /\ pc = r.pc
  /\ fed = r.fed /\ rdn = r.rdn /\ remoteClosed = r.remoteClosed /\ connClosed = r.connClosed
  /\ disc = r.disc /\ quit = r.quit /\ inQuit = r.inQuit /\ queueQuit = r.queueQuit /\ outQuit = r.outQuit
  /\ versionKnown = r.versionKnown /\ verAck = r.verAck /\ nego = r.nego /\ started = r.started /\ negRes = r.negRes
  /\ oq = r.oq /\ sq = r.sq /\ sdq = r.sdq /\ sc = r.sc /\ invq = r.invq
  /\ cur = r.cur /\ shIo = r.shIo /\ waiting = r.waiting /\ pending = r.pending /\ invSend = r.invSend
  /\ ohMsg = r.ohMsg /\ pings = r.pings /\ sidx = r.sidx /\ iidx = r.iidx
  /\ doneCnt = r.doneCnt /\ safe = r.safe /\ putSeq = r.putSeq /\ wireSeq = r.wireSeq
  /\ rjDone = r.rjDone /\ shEarly = r.shEarly /\ latePut = r.latePut /\ cbBad = r.cbBad

\* the same as an action (used by TracePeer to start the next trace)
ResetTo(sc0) ==
  LET r == InitRec(sc0) IN
  /\ scn' = r.scn /\ pc' = r.pc
  /\ fed' = r.fed /\ rdn' = r.rdn /\ remoteClosed' = r.remoteClosed /\ connClosed' = r.connClosed
  /\ disc' = r.disc /\ quit' = r.quit /\ inQuit' = r.inQuit /\ queueQuit' = r.queueQuit /\ outQuit' = r.outQuit
  /\ versionKnown' = r.versionKnown /\ verAck' = r.verAck /\ nego' = r.nego /\ started' = r.started /\ negRes' = r.negRes
  /\ oq' = r.oq /\ sq' = r.sq /\ sdq' = r.sdq /\ sc' = r.sc /\ invq' = r.invq
  /\ cur' = r.cur /\ shIo' = r.shIo /\ waiting' = r.waiting /\ pending' = r.pending /\ invSend' = r.invSend
  /\ ohMsg' = r.ohMsg /\ pings' = r.pings /\ sidx' = r.sidx /\ iidx' = r.iidx
  /\ doneCnt' = r.doneCnt /\ safe' = r.safe /\ putSeq' = r.putSeq /\ wireSeq' = r.wireSeq
  /\ rjDone' = r.rjDone /\ shEarly' = r.shEarly /\ latePut' = r.latePut /\ cbBad' = r.cbBad

Init == \E s \in Scenarios : InitFor(s)

---------------------------------------------------------------------------
(* Disconnect(): atomic flag, then conn.Close(), then close(quit).
   Callers enter at "d1" and continue at AfterDisc(p).                     *)

AfterDisc(p) == CASE p = "st" -> IF FixEarly THEN "sdw" ELSE "done"
                  [] p = "ih" -> "inq"
                  [] p = "oh" -> "loop"
                  [] p = "sh" -> "loop"
                  [] p = "dc" -> "ret"

DiscFlag(p) ==
  /\ pc[p] = "d1"
  /\ IF disc = 0 THEN disc' = 1 /\ Goto(p, "d2")
                 ELSE disc' = disc /\ Goto(p, AfterDisc(p))
  /\ UNCHANGED <<scn, connV, quit, inQuit, queueQuit, outQuit, hsV, chanV, locV, histV>>

DiscConn(p) ==            \* observable: the peer closes its conn
  /\ pc[p] = "d2"
  /\ connClosed' = TRUE
  /\ Goto(p, "d3")
  /\ UNCHANGED <<scn, fed, rdn, remoteClosed, flagV, hsV, chanV, locV, histV>>

DiscQuit(p) ==
  /\ pc[p] = "d3"
  /\ quit' = TRUE
  /\ Goto(p, AfterDisc(p))
  /\ UNCHANGED <<scn, connV, disc, inQuit, queueQuit, outQuit, hsV, chanV, locV, histV>>

---------------------------------------------------------------------------
(* remote side *)

(* The sibling outbound peer (process "sb") writing its version message:
   localVersionMsg records the nonce in sentNonces BEFORE writeMessage puts it
   on the wire; the write returns later still.  The remote can echo the nonce
   as soon as it is on the wire.                                             *)
SbRecord ==               \* sentNonces.Add(nonce)
  /\ pc["sb"] = "gen"
  /\ Goto("sb", "wr")
  /\ UNCHANGED <<scn, connV, flagV, hsV, chanV, locV, histV>>
SbWrite ==                \* observable sibwire: the nonce is on the wire, the write call has not returned
  /\ pc["sb"] = "wr"
  /\ Goto("sb", "fly")
  /\ UNCHANGED <<scn, connV, flagV, hsV, chanV, locV, histV>>
SbRet ==                  \* the write call returns
  /\ pc["sb"] = "fly"
  /\ Goto("sb", "done")
  /\ UNCHANGED <<scn, connV, flagV, hsV, chanV, locV, histV>>
SibOnWire == pc["sb"] \in {"fly", "done"}
\* is the nonce of a self version in sentNonces when readRemoteVersionMsg looks?
SelfKnown == ~scn.sib \/ pc["sb"] \in {"wr", "fly", "done"}

RmFeed ==                 \* observable: next script message put on the conn
  /\ pc["rm"] = "run" /\ fed < Len(scn.script) /\ ~remoteClosed
  /\ (scn.sib /\ scn.script[fed + 1].self) => SibOnWire
  /\ fed' = fed + 1
  /\ UNCHANGED <<scn, pc, rdn, remoteClosed, connClosed, flagV, hsV, chanV, locV, histV>>

RmClose ==                \* observable: remote closes
  /\ pc["rm"] = "run" /\ fed = Len(scn.script) /\ scn.rclose
  /\ remoteClosed' = TRUE
  /\ Goto("rm", "done")
  /\ UNCHANGED <<scn, fed, rdn, connClosed, flagV, hsV, chanV, locV, histV>>

---------------------------------------------------------------------------
(* conn reads by the peer (ng or ih).  A read of a complete message is
   observable (the harness owns the conn); a failing read is internal.     *)

CanRead   == rdn < fed /\ ~connClosed
ReadFails == connClosed \/ (rdn = fed /\ remoteClosed)

ReadMsg(p, l) ==          \* observable rd(i)
  /\ CanRead
  /\ rdn' = rdn + 1
  /\ cur' = [cur EXCEPT ![p] = rdn + 1]
  /\ Goto(p, l)

CurMsg(p) == scn.script[cur[p]]

\* wire-level outcome of reading message m while the negotiated version is nego:
\* sendaddrv2 does not decode below 70016 (wire/msgsendaddrv2.go)
DecodeErr(m) == m.k \in {"malformed", "wrongmagic"} \/ (m.k = "sendaddrv2" /\ nego < AddrV2PV)
Unknown(m)   == m.k = "unknown"
IsReadErr(m) == DecodeErr(m) \/ Unknown(m)

---------------------------------------------------------------------------
(* negotiator *)

NgFail == negRes' = "err" /\ Goto("ng", "done")

\* writeMessage during negotiation: the disconnect flag is tested first (the
\* message is silently skipped when it is set), the write itself happens later
\* and fails when the connection has been closed in between.
NgWriteChk(l, nxt) ==
  /\ pc["ng"] = l
  /\ Goto("ng", IF disc # 0 THEN nxt ELSE l \o "2")
  /\ UNCHANGED <<scn, connV, flagV, hsV, chanV, locV, histV>>
NgWriteOk(l, k, nxt) ==   \* observable wire(k)
  /\ pc["ng"] = l \o "2" /\ ~connClosed /\ ~remoteClosed
  /\ wireSeq' = Append(wireSeq, Item(k, 0))
  /\ Goto("ng", nxt)
  /\ UNCHANGED <<scn, connV, flagV, hsV, chanV, locV, doneCnt, safe, putSeq, rjDone, shEarly, latePut, cbBad>>
NgWriteErr(l) ==
  /\ pc["ng"] = l \o "2" /\ (connClosed \/ remoteClosed)
  /\ NgFail
  /\ UNCHANGED <<scn, connV, flagV, versionKnown, verAck, nego, started, chanV, locV, histV>>

AfterWver == IF scn.dir = "in" THEN "wsa" ELSE "rver"
AfterRver == IF scn.dir = "in" THEN "wver" ELSE "wsa"

NgWsaNone ==              \* negotiated version below 70016: no sendaddrv2
  /\ pc["ng"] = "wsa" /\ nego < AddrV2PV
  /\ Goto("ng", "wva")
  /\ UNCHANGED <<scn, connV, flagV, hsV, chanV, locV, histV>>

\* the reject written when negotiation refuses the remote ("wrj"), then fail;
\* reject does not encode below 70002
NgWrjChk ==
  /\ pc["ng"] = "wrj"
  /\ IF disc # 0 \/ nego < RejectPV
       THEN NgFail /\ UNCHANGED <<versionKnown, verAck, nego, started>>
       ELSE Goto("ng", "wrj2") /\ UNCHANGED hsV
  /\ UNCHANGED <<scn, connV, flagV, chanV, locV, histV>>
NgWrjOk ==                \* observable wire(reject)
  /\ pc["ng"] = "wrj2" /\ ~connClosed /\ ~remoteClosed
  /\ wireSeq' = Append(wireSeq, Item("reject", 0))
  /\ NgFail
  /\ UNCHANGED <<scn, connV, flagV, versionKnown, verAck, nego, started, chanV, locV, doneCnt, safe, putSeq, rjDone, shEarly, latePut, cbBad>>
NgWrjErr ==
  /\ pc["ng"] = "wrj2" /\ (connClosed \/ remoteClosed)
  /\ NgFail
  /\ UNCHANGED <<scn, connV, flagV, versionKnown, verAck, nego, started, chanV, locV, histV>>

NgReadVer ==              \* observable rd
  /\ pc["ng"] = "rver" /\ ReadMsg("ng", "pver")
  /\ UNCHANGED <<scn, fed, remoteClosed, connClosed, flagV, hsV, chanV, shIo, waiting, pending, invSend, ohMsg, pings, sidx, iidx, histV>>
NgReadLoop ==             \* observable rd
  /\ pc["ng"] = "rloop" /\ ReadMsg("ng", "ploop")
  /\ UNCHANGED <<scn, fed, remoteClosed, connClosed, flagV, hsV, chanV, shIo, waiting, pending, invSend, ohMsg, pings, sidx, iidx, histV>>
NgReadFail ==
  /\ pc["ng"] \in {"rver", "rloop"} /\ ReadFails
  /\ NgFail
  /\ UNCHANGED <<scn, connV, flagV, versionKnown, verAck, nego, started, chanV, locV, histV>>

\* readRemoteVersionMsg after the read
NgPverErr ==              \* undecodable / unknown / self connection: fail silently
  /\ pc["ng"] = "pver"
  /\ IsReadErr(CurMsg("ng")) \/ (CurMsg("ng").k = "ver" /\ CurMsg("ng").self /\ SelfKnown)
  /\ NgFail
  /\ UNCHANGED <<scn, connV, flagV, versionKnown, verAck, nego, started, chanV, locV, histV>>
NgPverNotVer ==           \* first message is not version: reject, fail
  /\ pc["ng"] = "pver"
  /\ ~IsReadErr(CurMsg("ng")) /\ CurMsg("ng").k # "ver"
  /\ Goto("ng", "wrj")
  /\ UNCHANGED <<scn, connV, flagV, hsV, chanV, locV, histV>>
NgPverVer ==              \* observable cb(version): flags set, OnVersion invoked
  /\ pc["ng"] = "pver"
  /\ CurMsg("ng").k = "ver" /\ ~(CurMsg("ng").self /\ SelfKnown)
  /\ versionKnown' = TRUE
  /\ nego' = Min(nego, CurMsg("ng").pv)
  /\ Goto("ng", IF CurMsg("ng").pv < MinAcceptablePV THEN "wrj" ELSE AfterRver)
  /\ UNCHANGED <<scn, connV, flagV, verAck, started, negRes, chanV, locV, histV>>

\* waitToFinishNegotiation after the read
NgPloopSkip ==            \* unknown message: ignored
  /\ pc["ng"] = "ploop"
  /\ Unknown(CurMsg("ng"))
  /\ Goto("ng", "rloop")
  /\ UNCHANGED <<scn, connV, flagV, hsV, chanV, locV, histV>>
NgPloopSendAddr ==        \* observable cb(sendaddrv2)
  /\ pc["ng"] = "ploop"
  /\ CurMsg("ng").k = "sendaddrv2" /\ nego >= AddrV2PV
  /\ Goto("ng", "rloop")
  /\ UNCHANGED <<scn, connV, flagV, hsV, chanV, locV, histV>>
NgPloopVerAck ==          \* observable cb(verack): handshake complete
  /\ pc["ng"] = "ploop"
  /\ CurMsg("ng").k = "verack"
  /\ verAck' = TRUE
  /\ negRes' = "ok"
  /\ Goto("ng", "done")
  /\ UNCHANGED <<scn, connV, flagV, versionKnown, nego, started, chanV, locV, histV>>
NgPloopFail ==            \* anything else: invalid handshake / read error
  /\ pc["ng"] = "ploop"
  /\ DecodeErr(CurMsg("ng")) \/ CurMsg("ng").k \in {"ver", "ping", "getaddr"}
  /\ NgFail
  /\ UNCHANGED <<scn, connV, flagV, versionKnown, verAck, nego, started, chanV, locV, histV>>

NgInternal == NgWriteChk("wver", AfterWver) \/ NgWriteErr("wver")
              \/ (nego >= AddrV2PV /\ NgWriteChk("wsa", "wva")) \/ NgWriteErr("wsa") \/ NgWsaNone
              \/ NgWriteChk("wva", "rloop") \/ NgWriteErr("wva")
              \/ NgWrjChk \/ NgWrjErr \/ NgReadFail \/ NgPverErr \/ NgPverNotVer \/ NgPloopSkip \/ NgPloopFail

---------------------------------------------------------------------------
(* Peer.start *)

StartHandlers ==
  pc' = [pc EXCEPT !["st"] = "done", !["ih"] = "loop", !["sh"] = "loop",
                   !["qh"] = "loop", !["oh"] = "loop", !["ph"] = "loop"]

StOk ==
  /\ pc["st"] = "wait" /\ negRes = "ok"
  /\ StartHandlers /\ started' = TRUE
  /\ UNCHANGED <<scn, connV, flagV, versionKnown, verAck, nego, negRes, chanV, locV, histV>>
StErr ==
  /\ pc["st"] = "wait" /\ negRes = "err"
  /\ Goto("st", "d1")
  /\ UNCHANGED <<scn, connV, flagV, hsV, chanV, locV, histV>>
StQuit ==
  /\ pc["st"] = "wait" /\ quit
  /\ Goto("st", IF FixEarly THEN "sdw" ELSE "done")
  /\ UNCHANGED <<scn, connV, flagV, hsV, chanV, locV, histV>>
StTimeout ==
  /\ Timers /\ pc["st"] = "wait"
  /\ Goto("st", "d1")
  /\ UNCHANGED <<scn, connV, flagV, hsV, chanV, locV, histV>>

---------------------------------------------------------------------------
(* puts on outputQueue *)

PutOq(it) == /\ Len(oq) < Cap
             /\ oq' = Append(oq, it)
             /\ putSeq' = IF it.k = "msg" THEN Append(putSeq, it.id) ELSE putSeq

QhGone == pc["qh"] \in {"dq", "done"}     \* queueHandler is past its main loop

Signal(it) == IF it.k = "msg" THEN doneCnt' = [doneCnt EXCEPT ![it.id] = @ + 1] /\ UNCHANGED rjDone
              ELSE IF it.k = "reject" THEN rjDone' = rjDone + 1 /\ UNCHANGED doneCnt
              ELSE UNCHANGED <<doneCnt, rjDone>>

\* empty outputQueue without sending, signalling every done channel found
CountIn(q, it) == Cardinality({i \in 1..Len(q) : q[i] = it})
DrainOq == /\ doneCnt' = [m \in AllMsgs |-> doneCnt[m] + CountIn(oq, Item("msg", m))]
           /\ rjDone' = rjDone + CountIn(oq, Item("reject", 0))
           /\ oq' = <<>>

(* QueueMessageWithEncoding behind the Connected() test, for caller p at label l.
   Unrepaired: a blocking put.  Repaired (FixLatePut): the put selects on quit
   (the message is then reported done at once), and when the message is queued
   and quit is found closed the caller empties the queue itself: queueHandler may
   already be past its final drain (or was never started).                      *)
QmPut(p, l, it, nxt, own) ==
  /\ pc[p] = l
  /\ \/ /\ PutOq(it)
        /\ latePut' = (latePut \/ (own /\ ~FixLatePut /\ QhGone))
        /\ Goto(p, IF FixLatePut THEN l \o "2" ELSE nxt)
        /\ UNCHANGED <<doneCnt, rjDone>>
     \/ /\ FixLatePut /\ quit
        /\ Signal(it)
        /\ Goto(p, nxt)
        /\ UNCHANGED <<oq, putSeq, latePut>>
  /\ UNCHANGED <<scn, connV, flagV, hsV, sq, sdq, sc, invq, locV, safe, wireSeq, shEarly, cbBad>>
QmAfter(p, l, nxt) ==
  /\ pc[p] = l \o "2"
  /\ IF quit THEN DrainOq ELSE UNCHANGED <<oq, doneCnt, rjDone>>
  /\ Goto(p, nxt)
  /\ UNCHANGED <<scn, connV, flagV, hsV, sq, sdq, sc, invq, locV, safe, putSeq, wireSeq, shEarly, latePut, cbBad>>

\* repaired start(): the handlers that would drain the queues on shutdown never
\* ran; wait until the peer is marked disconnected, then drain
StWaitQuit ==
  /\ pc["st"] = "sdw" /\ quit
  /\ Goto("st", "sdr")
  /\ UNCHANGED <<scn, connV, flagV, hsV, chanV, locV, histV>>
StDrain ==
  /\ pc["st"] = "sdr"
  /\ DrainOq /\ invq' = <<>>
  /\ Goto("st", "done")
  /\ UNCHANGED <<scn, connV, flagV, hsV, sq, sdq, sc, locV, safe, putSeq, wireSeq, shEarly, latePut, cbBad>>

---------------------------------------------------------------------------
(* inHandler *)

IhLoopExit ==             \* for atomic.LoadInt32(&p.disconnect) == 0
  /\ pc["ih"] = "loop" /\ disc # 0
  /\ Goto("ih", "d1")
  /\ UNCHANGED <<scn, connV, flagV, hsV, chanV, locV, histV>>
IhLoopGo ==
  /\ pc["ih"] = "loop" /\ disc = 0
  /\ Goto("ih", "read")
  /\ UNCHANGED <<scn, connV, flagV, hsV, chanV, locV, histV>>
\* isAllowedReadError: only on the regression test network and only from
\* localhost are undecodable / wrong-network messages tolerated (and skipped)
Tolerant == scn.net = "regtest" /\ scn.loop
IhAfterRead(m) == CASE DecodeErr(m) /\ Tolerant -> "loop"
                    [] Unknown(m)              -> "loop"   \* ErrUnknownMessage: ignored
                    [] DecodeErr(m)            -> "bad"
                    [] OTHER                   -> "sc1"
IhRead ==                 \* observable rd
  /\ pc["ih"] = "read" /\ CanRead
  /\ rdn' = rdn + 1
  /\ cur' = [cur EXCEPT !["ih"] = rdn + 1]
  /\ Goto("ih", IhAfterRead(scn.script[rdn + 1]))
  /\ UNCHANGED <<scn, fed, remoteClosed, connClosed, flagV, hsV, chanV, shIo, waiting, pending, invSend, ohMsg, pings, sidx, iidx, histV>>
IhReadFail ==             \* EOF / closed conn: no reject
  /\ pc["ih"] = "read" /\ ReadFails
  /\ Goto("ih", "d1")
  /\ UNCHANGED <<scn, connV, flagV, hsV, chanV, locV, histV>>

IhBad ==                  \* undecodable / wrong network: reject (wait) unless disconnecting
  /\ pc["ih"] = "bad"
  /\ Goto("ih", IF disc = 0 THEN "rj" ELSE "d1")
  /\ UNCHANGED <<scn, connV, flagV, hsV, chanV, locV, histV>>

\* p.stallControl <- ...: while stallHandler runs it always takes the message;
\* once it is gone the buffer (capacity 1) accepts exactly one more.
ScSend == IF pc["sh"] = "loop" THEN UNCHANGED sc ELSE sc = 0 /\ sc' = 1

IhDispatchTo == CASE CurMsg("ih").k \in {"ver", "verack"} -> "rj"
                  [] CurMsg("ih").k = "sendaddrv2"       -> "d1"
                  [] CurMsg("ih").k = "ping"             -> IF nego > BIP0031PV THEN "pongchk" ELSE "cb"
                  [] OTHER                               -> "cb"

IhSc(l, nxt) ==
  /\ pc["ih"] = l /\ ScSend
  /\ Goto("ih", nxt)
  /\ UNCHANGED <<scn, connV, flagV, hsV, oq, sq, sdq, invq, locV, histV>>

IhPongChk ==              \* QueueMessage(pong, nil): Connected()?
  /\ pc["ih"] = "pongchk"
  /\ Goto("ih", IF Connected THEN "pongput" ELSE "cb")
  /\ UNCHANGED <<scn, connV, flagV, hsV, chanV, locV, histV>>
IhPongPut   == QmPut("ih", "pongput", Item("pong", 0), "cb", TRUE)
IhPongAfter == QmAfter("ih", "pongput", "cb")

IhCallback ==             \* observable cb(<kind>): application listener runs
  /\ pc["ih"] = "cb"
  /\ cbBad' = (cbBad \/ ~(versionKnown /\ verAck))
  /\ Goto("ih", "sc3")
  /\ UNCHANGED <<scn, connV, flagV, hsV, chanV, locV, doneCnt, safe, putSeq, wireSeq, rjDone, shEarly, latePut>>

\* PushRejectMsg(..., wait = true)
IhRj ==
  /\ pc["ih"] = "rj"
  /\ Goto("ih", IF versionKnown /\ nego < RejectPV THEN "d1"
                ELSE IF Connected THEN "rjput" ELSE "rjspawn")
  /\ UNCHANGED <<scn, connV, flagV, hsV, chanV, locV, histV>>
IhRjSpawn ==              \* go func() { doneChan <- struct{}{} }()
  /\ pc["ih"] = "rjspawn"
  /\ rjDone' = rjDone + 1
  /\ Goto("ih", "rjwait")
  /\ UNCHANGED <<scn, connV, flagV, hsV, chanV, locV, doneCnt, safe, putSeq, wireSeq, shEarly, latePut, cbBad>>
IhRjPut   == QmPut("ih", "rjput", Item("reject", 0), "rjwait", TRUE)
IhRjAfter == QmAfter("ih", "rjput", "rjwait")
IhRjWait ==               \* <-doneChan
  /\ pc["ih"] = "rjwait" /\ rjDone > 0
  /\ Goto("ih", "d1")
  /\ UNCHANGED <<scn, connV, flagV, hsV, chanV, locV, histV>>
IhRjEscape ==             \* repaired PushRejectMsg: select { case <-doneChan: case <-p.quit: }
  /\ FixLatePut /\ pc["ih"] = "rjwait" /\ quit
  /\ Goto("ih", "d1")
  /\ UNCHANGED <<scn, connV, flagV, hsV, chanV, locV, histV>>

IhCloseInQuit ==
  /\ pc["ih"] = "inq"
  /\ inQuit' = TRUE
  /\ Goto("ih", "done")
  /\ UNCHANGED <<scn, connV, disc, quit, queueQuit, outQuit, hsV, chanV, locV, histV>>

IhInternal == IhLoopExit \/ IhLoopGo \/ IhReadFail \/ IhBad
              \/ IhSc("sc1", "sc2") \/ IhSc("sc2", IhDispatchTo) \/ IhSc("sc3", "loop")
              \/ IhPongChk \/ IhPongPut \/ IhPongAfter
              \/ IhRj \/ IhRjSpawn \/ IhRjPut \/ IhRjAfter \/ IhRjWait \/ IhRjEscape \/ IhCloseInQuit
              \/ DiscFlag("ih") \/ DiscQuit("ih")

---------------------------------------------------------------------------
(* stallHandler *)

ShQuitCase(ch) ==         \* case <-p.inQuit / case <-p.outQuit (closed channels stay ready)
  /\ pc["sh"] = "loop" /\ ch
  /\ IF FixStall
       THEN /\ inQuit /\ outQuit
            /\ Goto("sh", "done") /\ sc' = 0 /\ UNCHANGED <<shIo, shEarly>>
       ELSE IF shIo
              THEN /\ Goto("sh", "done") /\ sc' = 0
                   /\ shEarly' = (shEarly \/ pc["ih"] # "done" \/ pc["oh"] # "done")
                   /\ UNCHANGED shIo
              ELSE /\ shIo' = TRUE /\ UNCHANGED <<pc, shEarly, sc>>
  /\ UNCHANGED <<scn, connV, flagV, hsV, oq, sq, sdq, invq, cur, waiting, pending, invSend, ohMsg, pings, sidx, iidx,
                 doneCnt, safe, putSeq, wireSeq, rjDone, latePut, cbBad>>
ShTimeout ==              \* stall deadline passed (or idle timer): Disconnect
  /\ Timers /\ pc["sh"] = "loop" /\ disc = 0
  /\ Goto("sh", "d1")
  /\ UNCHANGED <<scn, connV, flagV, hsV, chanV, locV, histV>>

ShInternal == ShQuitCase(inQuit) \/ ShQuitCase(outQuit) \/ ShTimeout
              \/ DiscFlag("sh") \/ DiscQuit("sh")

---------------------------------------------------------------------------
(* queueHandler *)

\* queuePacket: hand to outHandler directly, or park in pendingMsgs
QueuePacket(it) ==
  /\ IF waiting THEN pending' = Append(pending, it) /\ UNCHANGED sq
                ELSE /\ Len(sq) = 0 /\ sq' = <<it>> /\ UNCHANGED pending
  /\ waiting' = TRUE

RECURSIVE Pow2(_), SumIds(_)
Pow2(n)   == IF n = 0 THEN 1 ELSE 2 * Pow2(n - 1)
SumIds(q) == IF q = <<>> THEN 0 ELSE Head(q).id + SumIds(Tail(q))

QhOutput ==               \* case msg := <-p.outputQueue
  /\ pc["qh"] = "loop" /\ Len(oq) > 0
  /\ QueuePacket(Head(oq))
  /\ oq' = Tail(oq)
  /\ UNCHANGED <<scn, pc, connV, flagV, hsV, sdq, sc, invq, cur, shIo, invSend, ohMsg, pings, sidx, iidx, histV>>
QhSendDone ==             \* case <-p.sendDoneQueue
  /\ pc["qh"] = "loop" /\ sdq = 1
  /\ sdq' = 0
  /\ IF Len(pending) = 0
       THEN waiting' = FALSE /\ UNCHANGED <<pending, sq>>
       ELSE /\ Len(sq) = 0 /\ sq' = <<Head(pending)>> /\ pending' = Tail(pending) /\ UNCHANGED waiting
  /\ UNCHANGED <<scn, pc, connV, flagV, hsV, oq, sc, invq, cur, shIo, invSend, ohMsg, pings, sidx, iidx, histV>>
QhInv ==                  \* case iv := <-p.outputInvChan
  /\ pc["qh"] = "loop" /\ Len(invq) > 0
  /\ invq' = Tail(invq)
  /\ IF ~versionKnown THEN UNCHANGED <<invSend, sq, pending, waiting>>
     ELSE IF Head(invq).k = "block"
       THEN QueuePacket(Item("inv", Head(invq).id)) /\ UNCHANGED invSend
       ELSE invSend' = Append(invSend, Head(invq)) /\ UNCHANGED <<sq, pending, waiting>>
  /\ UNCHANGED <<scn, pc, connV, flagV, hsV, oq, sdq, sc, cur, shIo, ohMsg, pings, sidx, iidx, histV>>
QhTrickle ==              \* case <-trickleTicker.C with something to send
  /\ pc["qh"] = "loop" /\ disc = 0 /\ Len(invSend) > 0
  /\ QueuePacket(Item("inv", SumIds(invSend)))
  /\ invSend' = <<>>
  /\ UNCHANGED <<scn, pc, connV, flagV, hsV, oq, sdq, sc, invq, cur, shIo, ohMsg, pings, sidx, iidx, histV>>
QhQuit ==
  /\ pc["qh"] = "loop" /\ quit
  /\ Goto("qh", "dp")
  /\ UNCHANGED <<scn, connV, flagV, hsV, chanV, locV, histV>>
QhDrainPending ==
  /\ pc["qh"] = "dp"
  /\ IF Len(pending) > 0
       THEN Signal(Head(pending)) /\ pending' = Tail(pending) /\ UNCHANGED pc
       ELSE Goto("qh", "dq") /\ UNCHANGED <<pending, doneCnt, rjDone>>
  /\ UNCHANGED <<scn, connV, flagV, hsV, chanV, cur, shIo, waiting, invSend, ohMsg, pings, sidx, iidx,
                 safe, putSeq, wireSeq, shEarly, latePut, cbBad>>
QhDrainQueues ==          \* cleanup: select { outputQueue, outputInvChan, default }
  /\ pc["qh"] = "dq"
  /\ \/ /\ Len(oq) > 0 /\ Signal(Head(oq)) /\ oq' = Tail(oq) /\ UNCHANGED <<invq, pc, queueQuit>>
     \/ /\ Len(invq) > 0 /\ invq' = Tail(invq) /\ UNCHANGED <<oq, pc, queueQuit, doneCnt, rjDone>>
     \/ /\ Len(oq) = 0 /\ Len(invq) = 0 /\ queueQuit' = TRUE /\ Goto("qh", "done")
        /\ UNCHANGED <<oq, invq, doneCnt, rjDone>>
  /\ UNCHANGED <<scn, connV, disc, quit, inQuit, outQuit, hsV, sq, sdq, sc, locV,
                 safe, putSeq, wireSeq, shEarly, latePut, cbBad>>

QhInternal == QhOutput \/ QhSendDone \/ QhInv \/ QhTrickle \/ QhQuit \/ QhDrainPending \/ QhDrainQueues

---------------------------------------------------------------------------
(* outHandler *)

OhTake ==                 \* case msg := <-p.sendQueue
  /\ pc["oh"] = "loop" /\ Len(sq) > 0
  /\ ohMsg' = Head(sq) /\ sq' = <<>>
  /\ Goto("oh", "sc")
  /\ UNCHANGED <<scn, connV, flagV, hsV, oq, sdq, sc, invq, cur, shIo, waiting, pending, invSend, pings, sidx, iidx, histV>>
OhSc ==                   \* p.stallControl <- sccSendMessage
  /\ pc["oh"] = "sc" /\ ScSend
  /\ Goto("oh", "wr")
  /\ UNCHANGED <<scn, connV, flagV, hsV, oq, sq, sdq, invq, locV, histV>>
OhWriteChk ==             \* writeMessage: returns nil without writing when disconnecting
  /\ pc["oh"] = "wr"
  /\ IF disc # 0 THEN Signal(ohMsg) /\ Goto("oh", "sd")
                 ELSE Goto("oh", "wr2") /\ UNCHANGED <<doneCnt, rjDone>>
  /\ UNCHANGED <<scn, connV, flagV, hsV, chanV, locV, safe, putSeq, wireSeq, shEarly, latePut, cbBad>>
OhWriteOk ==              \* observable wire(item); done signal follows
  /\ pc["oh"] = "wr2" /\ ~connClosed /\ ~remoteClosed
  /\ wireSeq' = Append(wireSeq, ohMsg)
  /\ Signal(ohMsg)
  /\ Goto("oh", "sd")
  /\ UNCHANGED <<scn, connV, flagV, hsV, chanV, locV, safe, putSeq, shEarly, latePut, cbBad>>
OhWriteErr ==             \* write error: Disconnect(), done signal, continue
  /\ pc["oh"] = "wr2" /\ (connClosed \/ remoteClosed)
  /\ Signal(ohMsg)
  /\ Goto("oh", "d1")
  /\ UNCHANGED <<scn, connV, flagV, hsV, chanV, locV, safe, putSeq, wireSeq, shEarly, latePut, cbBad>>
OhSendDone ==             \* p.sendDoneQueue <- struct{}{}
  /\ pc["oh"] = "sd" /\ sdq = 0
  /\ sdq' = 1
  /\ Goto("oh", "loop")
  /\ UNCHANGED <<scn, connV, flagV, hsV, oq, sq, sc, invq, locV, histV>>
OhQuit ==
  /\ pc["oh"] = "loop" /\ quit
  /\ Goto("oh", "wq")
  /\ UNCHANGED <<scn, connV, flagV, hsV, chanV, locV, histV>>
OhWaitQueue ==            \* <-p.queueQuit
  /\ pc["oh"] = "wq" /\ queueQuit
  /\ Goto("oh", "ds")
  /\ UNCHANGED <<scn, connV, flagV, hsV, chanV, locV, histV>>
OhDrain ==
  /\ pc["oh"] = "ds"
  /\ IF Len(sq) > 0
       THEN Signal(Head(sq)) /\ sq' = <<>> /\ UNCHANGED <<pc, outQuit>>
       ELSE outQuit' = TRUE /\ Goto("oh", "done") /\ UNCHANGED <<sq, doneCnt, rjDone>>
  /\ UNCHANGED <<scn, connV, disc, quit, inQuit, queueQuit, hsV, oq, sdq, sc, invq, locV,
                 safe, putSeq, wireSeq, shEarly, latePut, cbBad>>

OhInternal == OhTake \/ OhSc \/ OhWriteChk \/ OhWriteErr \/ OhSendDone \/ OhQuit \/ OhWaitQueue \/ OhDrain
              \/ DiscFlag("oh") \/ DiscQuit("oh")

---------------------------------------------------------------------------
(* pingHandler *)

PhTick ==
  /\ Timers /\ pc["ph"] = "loop" /\ pings < MaxPings
  /\ pings' = pings + 1
  /\ Goto("ph", IF Connected THEN "put" ELSE "loop")
  /\ UNCHANGED <<scn, connV, flagV, hsV, chanV, cur, shIo, waiting, pending, invSend, ohMsg, sidx, iidx, histV>>
PhPut   == QmPut("ph", "put", Item("ping", 0), "loop", TRUE)
PhAfter == QmAfter("ph", "put", "loop")
PhQuit ==
  /\ pc["ph"] = "loop" /\ quit
  /\ Goto("ph", "done")
  /\ UNCHANGED <<scn, connV, flagV, hsV, chanV, locV, histV>>

PhInternal == PhTick \/ PhPut \/ PhAfter \/ PhQuit

---------------------------------------------------------------------------
(* application: senders, inventory, disconnector *)

SMsg(s) == scn.plan[s][sidx[s]]

SndCall(s) ==             \* observable qcall(s, m)
  /\ pc[s] = "idle"
  /\ Goto(s, "chk")
  /\ UNCHANGED <<scn, connV, flagV, hsV, chanV, locV, histV>>
SndChk(s) ==              \* if !p.Connected() { go func(){ doneChan <- } }
  /\ pc[s] = "chk"
  /\ IF Connected
       THEN Goto(s, "put") /\ UNCHANGED doneCnt
       ELSE Goto(s, "ret") /\ doneCnt' = [doneCnt EXCEPT ![SMsg(s)] = @ + 1]
  /\ UNCHANGED <<scn, connV, flagV, hsV, chanV, locV, safe, putSeq, wireSeq, rjDone, shEarly, latePut, cbBad>>
SndPut(s)   == QmPut(s, "put", Item("msg", SMsg(s)), "ret", FALSE)   \* p.outputQueue <- outMsg{...}
SndAfter(s) == QmAfter(s, "put", "ret")
SndRet(s) ==              \* observable qret(s, m)
  /\ pc[s] = "ret"
  /\ safe' = IF disc = 0 THEN safe \cup {SMsg(s)} ELSE safe
  /\ sidx' = [sidx EXCEPT ![s] = @ + 1]
  /\ Goto(s, IF sidx[s] < Len(scn.plan[s]) THEN "idle" ELSE "done")
  /\ UNCHANGED <<scn, connV, flagV, hsV, chanV, cur, shIo, waiting, pending, invSend, ohMsg, pings, iidx,
                 doneCnt, putSeq, wireSeq, rjDone, shEarly, latePut, cbBad>>

IvCall ==                 \* observable icall
  /\ pc["iv"] = "idle"
  /\ Goto("iv", "chk")
  /\ UNCHANGED <<scn, connV, flagV, hsV, chanV, locV, histV>>
IvChk ==
  /\ pc["iv"] = "chk"
  /\ Goto("iv", IF Connected THEN "put" ELSE "ret")
  /\ UNCHANGED <<scn, connV, flagV, hsV, chanV, locV, histV>>
IvPut ==
  /\ pc["iv"] = "put" /\ Len(invq) < Cap
  /\ invq' = Append(invq, Item(scn.invs[iidx], Pow2(iidx - 1)))
  /\ Goto("iv", "ret")
  /\ UNCHANGED <<scn, connV, flagV, hsV, oq, sq, sdq, sc, locV, histV>>
IvEscape ==               \* repaired QueueInventory: select { case p.outputInvChan <- iv: case <-p.quit: }
  /\ FixLatePut /\ pc["iv"] = "put" /\ quit
  /\ Goto("iv", "ret")
  /\ UNCHANGED <<scn, connV, flagV, hsV, chanV, locV, histV>>
IvRet ==                  \* observable iret
  /\ pc["iv"] = "ret"
  /\ iidx' = iidx + 1
  /\ Goto("iv", IF iidx < Len(scn.invs) THEN "idle" ELSE "done")
  /\ UNCHANGED <<scn, connV, flagV, hsV, chanV, cur, shIo, waiting, pending, invSend, ohMsg, pings, sidx, histV>>

DcCall ==                 \* observable dcall
  /\ pc["dc"] = "idle"
  /\ Goto("dc", "d1")
  /\ UNCHANGED <<scn, connV, flagV, hsV, chanV, locV, histV>>
DcRet ==                  \* observable dret
  /\ pc["dc"] = "ret"
  /\ Goto("dc", "done")
  /\ UNCHANGED <<scn, connV, flagV, hsV, chanV, locV, histV>>

AppInternal == (\E s \in Senders : SndChk(s) \/ SndPut(s) \/ SndAfter(s)) \/ IvChk \/ IvPut \/ IvEscape
               \/ DiscFlag("dc") \/ DiscQuit("dc")

---------------------------------------------------------------------------

Internal == SbRecord \/ SbRet \/ NgInternal \/ StOk \/ StErr \/ StQuit \/ StTimeout \/ StWaitQuit \/ StDrain
            \/ DiscFlag("st") \/ DiscQuit("st")
            \/ IhInternal \/ ShInternal \/ QhInternal \/ OhInternal \/ PhInternal \/ AppInternal

Observable ==
  \/ RmFeed \/ RmClose \/ SbWrite
  \/ NgReadVer \/ NgReadLoop \/ IhRead
  \/ NgWriteOk("wver", "version", AfterWver)
  \/ (nego >= AddrV2PV /\ NgWriteOk("wsa", "sendaddrv2", "wva"))
  \/ NgWriteOk("wva", "verack", "rloop") \/ NgWrjOk
  \/ NgPverVer \/ NgPloopSendAddr \/ NgPloopVerAck
  \/ IhCallback \/ OhWriteOk
  \/ (\E p \in {"st", "ih", "oh", "sh", "dc"} : DiscConn(p))
  \/ (\E s \in Senders : SndCall(s) \/ SndRet(s))
  \/ IvCall \/ IvRet \/ DcCall \/ DcRet

Next == Internal \/ Observable

PeerNext(p) ==
  CASE p = "st" -> StOk \/ StErr \/ StQuit \/ StTimeout \/ StWaitQuit \/ StDrain \/ DiscFlag("st") \/ DiscConn("st") \/ DiscQuit("st")
    [] p = "ng" -> NgInternal \/ NgReadVer \/ NgReadLoop \/ NgWriteOk("wver", "version", AfterWver)
                   \/ (nego >= AddrV2PV /\ NgWriteOk("wsa", "sendaddrv2", "wva"))
                   \/ NgWriteOk("wva", "verack", "rloop") \/ NgWrjOk
                   \/ NgPverVer \/ NgPloopSendAddr \/ NgPloopVerAck
    [] p = "ih" -> IhInternal \/ IhRead \/ IhCallback \/ DiscConn("ih")
    [] p = "sh" -> ShQuitCase(inQuit) \/ ShQuitCase(outQuit)
                   \/ DiscFlag("sh") \/ DiscConn("sh") \/ DiscQuit("sh")
    [] p = "qh" -> QhOutput \/ QhSendDone \/ QhInv \/ QhTrickle \/ QhQuit \/ QhDrainPending \/ QhDrainQueues
    [] p = "oh" -> OhInternal \/ OhWriteOk \/ DiscConn("oh")
    [] p = "ph" -> PhPut \/ PhAfter \/ PhQuit

\* Weak fairness on every goroutine of the peer and on an entered Disconnect
\* call; nothing is assumed about the remote, the senders or the timers.
Fairness == /\ \A p \in PeerProcs : WF_vars(PeerNext(p))
            /\ WF_vars(DiscFlag("dc") \/ DiscConn("dc") \/ DiscQuit("dc"))

Spec == Init /\ [][Next]_vars /\ Fairness

---------------------------------------------------------------------------
(* Properties *)

Finished(p)  == pc[p] \in {"off", "done"}
AllPeerDone  == \A p \in PeerProcs : Finished(p)

InQueues(m)  == \E i \in 1..Len(oq) : oq[i] = Item("msg", m)

\* shapes of the recorded defects (see known-findings.json)
HandshakeAborted == pc["st"] = "done" /\ ~started
TaintEarly(m)    == HandshakeAborted /\ InQueues(m)
BlockedPut       == ~FixLatePut /\ \E p \in {"ih", "ph"} : pc[p] \in {"pongput", "rjput", "put"} /\ Len(oq) >= Cap /\ QhGone
TaintLeak        == shEarly \/ latePut \/ BlockedPut

TypeOK ==
  /\ Len(oq) <= Cap /\ Len(sq) <= 1 /\ sdq \in 0..1 /\ sc \in 0..1 /\ Len(invq) <= Cap
  /\ disc \in 0..1 /\ negRes \in {"none", "ok", "err"}

\* the hand-off protocol between queueHandler and outHandler
HandOff == /\ (~waiting => Len(sq) = 0 /\ Len(pending) = 0)
           /\ (pc["qh"] = "loop" /\ sdq = 1 => Len(sq) = 0)

DoneAtMostOnce == \A m \in AllMsgs : doneCnt[m] <= 1
RejectDoneAtMostOnce == rjDone <= 1

\* no application callback before version and verack were processed
NoEarlyCallback == ~cbBad
HandlersNeedHandshake == started => (versionKnown /\ verAck /\ negRes = "ok")

\* negotiated version is the lower one; refused remotes never get handlers
NegotiatedMin ==
  versionKnown => \E i \in 1..rdn : /\ scn.script[i].k = "ver"
                                    /\ nego = Min(scn.lpv, scn.script[i].pv)
FirstMsg == IF Len(scn.script) > 0 THEN scn.script[1] ELSE RMsg("none", 0, FALSE)
Refused  == \/ FirstMsg.k # "ver"
            \/ FirstMsg.self
            \/ FirstMsg.pv < MinAcceptablePV
RefusedNeverConnects == Refused => (~started /\ ~verAck /\ negRes # "ok")

\* wrong-network / undecodable traffic after the handshake is refused: it is the
\* last thing inHandler ever reads (except on regtest from localhost)
BadTrafficEndsReading ==
  started /\ ~Tolerant =>
     \A j \in (cur["ng"] + 1)..(rdn - 1) : scn.script[j].k \notin {"malformed", "wrongmagic"}

\* a nonce of ours is recorded before anybody can see it on the wire, so a
\* self connection is recognised under every interleaving
NonceRecordedBeforeWire == (scn.sib /\ SibOnWire) => SelfKnown

\* queue order is wire order; nothing is written twice
IsSubSeq(a, b) ==          \* a is a subsequence of b (both duplicate free)
  /\ \A i \in 1..Len(a) : \E j \in 1..Len(b) : a[i] = b[j]
  /\ \A i, j \in 1..Len(a) : i < j =>
        \E k, l \in 1..Len(b) : k < l /\ b[k] = a[i] /\ b[l] = a[j]
WireMsgs == SelectSeq(wireSeq, LAMBDA it : it.k = "msg")
WireIds  == [i \in 1..Len(WireMsgs) |-> WireMsgs[i].id]
FIFO     == IsSubSeq(WireIds, putSeq)
\* while not disconnecting nothing is skipped: the wire shows a prefix of the queue order
FIFOPrefix == disc = 0 /\ ~remoteClosed => \A i \in 1..Len(WireIds) : WireIds[i] = putSeq[i]

\* every send whose QueueMessage returned before the disconnect flag was set
\* is signalled once all goroutines of the peer are gone
QueuedBeforeDisconnectSignalled ==
  AllPeerDone /\ (\A s \in Senders : pc[s] \in {"idle", "done"}) =>
     \A m \in safe : doneCnt[m] = 1 \/ TaintEarly(m)
\* the same without the excuse (violated by the code as it is)
QueuedBeforeDisconnectSignalledStrict ==
  AllPeerDone /\ (\A s \in Senders : pc[s] \in {"idle", "done"}) =>
     \A m \in safe : doneCnt[m] = 1

\* with both repairs: every QueueMessage call that returned is signalled exactly once
Returned == UNION {{scn.plan[s][i] : i \in 1..(sidx[s] - 1)} : s \in Senders}
EveryReturnedSendSignalled ==
  AllPeerDone /\ (\A s \in Senders : pc[s] \in {"idle", "done"}) =>
     \A m \in Returned : doneCnt[m] = 1

\* after a disconnect request every goroutine of the peer ends
Termination       == (disc = 1) ~> (AllPeerDone \/ TaintLeak)
TerminationStrict == (disc = 1) ~> AllPeerDone
=============================================================================
