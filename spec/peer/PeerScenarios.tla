--------------------------- MODULE PeerScenarios ---------------------------
(***************************************************************************)
(* The scenario space of C18 as a specification, so that TLC generates the *)
(* scenarios the harness runs against the real peer:                       *)
(*   - the remote's script (valid, out of order, duplicated, unknown,      *)
(*     malformed, wrong-magic messages, self / obsolete / newer versions), *)
(*   - the direction and the locally configured protocol version,          *)
(*   - the chain parameters and whether the remote is at 127.0.0.1,        *)
(*   - which senders queue which messages, the inventory,                  *)
(*   - steering of the real run (when senders start, where the disconnect  *)
(*     request falls, held writes, a reader held after a read).            *)
(* Mode "sim": a behaviour builds one scenario step by step (TLC           *)
(* -simulate samples the space).  Mode "core": the hand-picked scenarios   *)
(* that hit every branch of the negotiation and of the shutdown paths      *)
(* (TLC enumerates them all).                                              *)
(* scn is exactly the scenario record of Peer.tla (field disc is set by    *)
(* the driver); steer is read only by the harness: Peer.tla allows any     *)
(* timing.                                                                 *)
(***************************************************************************)
EXTENDS Naturals, Sequences, TLC

CONSTANTS Mode, MaxTail

VARIABLES stage, script, good, tailLeft, scn, steer

vars == <<stage, script, good, tailLeft, scn, steer>>

R(k, pv, self) == [k |-> k, pv |-> pv, self |-> self]
Ver(pv) == R("ver", pv, FALSE)
M(k)    == R(k, 0, FALSE)

\* boundary values of every version threshold the code tests
PVs    == {208, 209, 60000, 60001, 70001, 70002, 70015, 70016, 70017}
OkPVs  == PVs \ {208}
LPVs   == <<70016, 70016, 70016, 70015, 70002, 70001, 60001>>

Alphabet == {Ver(pv) : pv \in PVs} \cup {R("ver", 70016, TRUE)}
            \cup {M(k) : k \in {"verack", "sendaddrv2", "unknown", "ping", "ping", "getaddr", "malformed", "wrongmagic"}}

Mids == {<<>>, <<M("sendaddrv2")>>, <<M("unknown")>>, <<M("sendaddrv2"), M("unknown")>>, <<M("unknown"), M("sendaddrv2")>>}

Plans == << [s1 |-> <<1, 2>>, s2 |-> <<3>>],
            [s1 |-> <<1>>, s2 |-> <<2>>],
            [s1 |-> <<1, 2, 3>>, s2 |-> <<>>],
            [s1 |-> <<1>>, s2 |-> <<>>],
            [s1 |-> <<>>, s2 |-> <<>>] >>
InvPlans == << <<>>, <<>>, <<"tx">>, <<"block">>, <<"block", "tx">>, <<"tx", "tx">> >>

\* chain parameters ("nil": none given, the peer defaults to testnet3) and whether
\* the remote's address is 127.0.0.1
Nets     == <<"sim", "sim", "main", "test3", "nil", "regtest", "regtest">>

Ats      == {"start", "hs", "late"}
DiscAts  == <<"none", "none", "start", "hs", "hs", "mid", "mid", "late", "late">>

NoScn   == [dir |-> "", lpv |-> 0, script |-> <<>>, rclose |-> FALSE,
            plan |-> [s1 |-> <<>>, s2 |-> <<>>], invs |-> <<>>, disc |-> FALSE, net |-> "", loop |-> FALSE, sib |-> FALSE]
NoSteer == [feed |-> "", sendAt |-> [s1 |-> "", s2 |-> ""], invAt |-> "", discAt |-> "",
            hold |-> FALSE, stallRead |-> 0]

Init ==
  /\ stage = IF Mode = "core" THEN "core" ELSE "shape"
  /\ script = <<>> /\ good = FALSE /\ tailLeft = 0
  /\ scn = NoScn /\ steer = NoSteer

\* a script that starts with a complete, acceptable handshake ...
StartGood ==
  /\ stage = "shape"
  /\ \E pv \in OkPVs, mid \in Mids, n \in 0..MaxTail :
        /\ script' = <<Ver(pv)>> \o mid \o <<M("verack")>>
        /\ tailLeft' = n
  /\ good' = TRUE
  /\ stage' = "tail"
  /\ UNCHANGED <<scn, steer>>
\* ... or any sequence of messages
StartAny ==
  /\ stage = "shape"
  /\ \E n \in 0..(MaxTail + 1) : tailLeft' = n
  /\ good' = FALSE
  /\ stage' = "tail"
  /\ UNCHANGED <<script, scn, steer>>

AddMsg ==
  /\ stage = "tail" /\ tailLeft > 0
  /\ \E m \in Alphabet : script' = Append(script, m)
  /\ tailLeft' = tailLeft - 1
  /\ UNCHANGED <<stage, good, scn, steer>>

ChooseConn ==
  /\ stage = "tail" /\ tailLeft = 0
  /\ \E d \in {"in", "out"}, li \in 1..Len(LPVs), rc \in BOOLEAN, pi \in 1..Len(Plans), ii \in 1..Len(InvPlans) :
        scn' = [dir |-> d, lpv |-> LPVs[li], script |-> script, rclose |-> rc,
                plan |-> Plans[pi], invs |-> InvPlans[ii], disc |-> FALSE, net |-> "", loop |-> FALSE, sib |-> FALSE]
  /\ stage' = "net"
  /\ UNCHANGED <<script, good, tailLeft, steer>>

ChooseNet ==
  /\ stage = "net"
  \* sib: a self nonce is the one a sibling outbound peer is writing right now
  /\ \E ni \in 1..Len(Nets), l \in BOOLEAN, sb \in BOOLEAN :
        scn' = [scn EXCEPT !.net = Nets[ni], !.loop = l,
                           !.sib = sb /\ (\E j \in 1..Len(script) : script[j].self)]
  /\ stage' = "steer1"
  /\ UNCHANGED <<script, good, tailLeft, steer>>

\* the first message after the handshake, if the handshake can succeed at all
StallIdx == IF good
              THEN CHOOSE i \in 1..Len(script) : script[i].k = "verack" /\ \A j \in 1..(i-1) : script[j].k # "verack"
              ELSE 0

ChooseDisc ==
  /\ stage = "steer1"
  /\ \/ \E di \in 1..Len(DiscAts), f \in {"eager", "lockstep"}, h \in BOOLEAN :
          steer' = [steer EXCEPT !.discAt = DiscAts[di], !.feed = f, !.hold = h, !.stallRead = 0]
     \/ /\ StallIdx > 0 /\ StallIdx < Len(script)
        /\ steer' = [steer EXCEPT !.discAt = "stall", !.feed = "lockstep", !.hold = FALSE, !.stallRead = StallIdx + 1]
  /\ stage' = "steer2"
  /\ UNCHANGED <<script, good, tailLeft, scn>>

ChooseStarts ==
  /\ stage = "steer2"
  /\ \E a1 \in Ats, a2 \in Ats, ai \in Ats :
        steer' = [steer EXCEPT !.sendAt = [s1 |-> a1, s2 |-> a2], !.invAt = ai]
  /\ stage' = "done"
  /\ UNCHANGED <<script, good, tailLeft, scn>>

---------------------------------------------------------------------------
(* hand-picked scenarios *)

HS(pv) == <<Ver(pv), M("verack")>>
Scn(d, lpv, scr, rc, p1, p2, iv) ==
  [dir |-> d, lpv |-> lpv, script |-> scr, rclose |-> rc, plan |-> [s1 |-> p1, s2 |-> p2], invs |-> iv, disc |-> FALSE,
   net |-> "sim", loop |-> FALSE, sib |-> FALSE]
St(f, a1, a2, ai, da, h, sr) ==
  [feed |-> f, sendAt |-> [s1 |-> a1, s2 |-> a2], invAt |-> ai, discAt |-> da, hold |-> h, stallRead |-> sr]

OnNet(c, n, l) == <<[c[1] EXCEPT !.net = n, !.loop = l], c[2]>>
\* wrong-network (or malformed) message after a completed handshake, then a valid
\* probe ping: refused everywhere except on regtest from localhost
Probe(d, k) == <<Scn(d, 70016, HS(70016) \o <<M(k), M("ping")>>, FALSE, <<1>>, <<>>, <<>>), St("lockstep", "hs", "hs", "hs", "none", FALSE, 0)>>
\* duplicated handshake messages after the handshake, then a valid probe ping:
\* the peer must be gone before the probe
Dup(d, k) == <<Scn(d, 70016, HS(70016) \o <<M(k), M("ping")>>, FALSE, <<1>>, <<>>, <<>>), St("lockstep", "hs", "hs", "hs", "none", FALSE, 0)>>
\* a node dialling itself while the sibling's version write is still in flight
Sib(d, p1) == <<[Scn(d, 70016, <<R("ver", 70016, TRUE), M("verack"), M("ping")>>, FALSE, p1, <<>>, <<>>) EXCEPT !.sib = TRUE],
                St("lockstep", "hs", "hs", "hs", "none", FALSE, 0)>>
\* more messages than outputQueue holds (50) from six callers while the handshake
\* is pending: the callers are parked on the full queue, past their Connected()
\* check, when the peer is disconnected; their messages get in behind the shutdown
\* drain and the callers empty the queue themselves, other callers' messages
\* included.  Every message has its own done channel.
Ids(a) == [j \in 1..10 |-> a + j]
Flood(d, scr) ==
  << [dir |-> d, lpv |-> 70016, script |-> scr, rclose |-> FALSE,
      plan |-> [s1 |-> Ids(0), s2 |-> Ids(10), s3 |-> Ids(20), s4 |-> Ids(30), s5 |-> Ids(40), s6 |-> Ids(50)],
      invs |-> <<>>, disc |-> FALSE, net |-> "sim", loop |-> FALSE, sib |-> FALSE],
     [feed |-> "eager", sendAt |-> [s1 |-> "start", s2 |-> "start", s3 |-> "start", s4 |-> "start", s5 |-> "start", s6 |-> "start"],
      invAt |-> "hs", discAt |-> "full", hold |-> FALSE, stallRead |-> 0] >>
\* six callers, one message each with its own done channel, all held (scheduling
\* gate of the peer package's verif hook) between their Connected() test and their
\* send until the disconnect is through, then between the send and their look at
\* the quit channel; one is let go first: it empties the queue, the messages of the
\* other callers included.
One(a) == <<a>>
Gated(d, scr) ==
  << [dir |-> d, lpv |-> 70016, script |-> scr, rclose |-> FALSE,
      plan |-> [s1 |-> One(1), s2 |-> One(2), s3 |-> One(3), s4 |-> One(4), s5 |-> One(5), s6 |-> One(6)],
      invs |-> <<>>, disc |-> FALSE, net |-> "sim", loop |-> FALSE, sib |-> FALSE],
     [feed |-> "eager", sendAt |-> [s1 |-> "start", s2 |-> "start", s3 |-> "start", s4 |-> "start", s5 |-> "start", s6 |-> "start"],
      invAt |-> "hs", discAt |-> "gated", hold |-> FALSE, stallRead |-> 0] >>
FloodCore == << Flood("in", <<>>), Gated("in", <<>>), Gated("out", <<>>), Gated("out", <<Ver(70016)>>), Gated("in", <<Ver(70015)>>) >>
MoreCore == << Dup("in", "verack"), Dup("out", "verack"), Dup("in", "ver"), Dup("out", "sendaddrv2"),
               Sib("in", <<1>>), Sib("out", <<>>), Sib("in", <<>>) >>
NetCore == << OnNet(Probe("in", "wrongmagic"), "main", TRUE),     OnNet(Probe("out", "wrongmagic"), "main", FALSE),
              OnNet(Probe("in", "wrongmagic"), "test3", TRUE),    OnNet(Probe("out", "wrongmagic"), "test3", FALSE),
              OnNet(Probe("out", "wrongmagic"), "nil", TRUE),     OnNet(Probe("in", "wrongmagic"), "nil", FALSE),
              OnNet(Probe("in", "wrongmagic"), "sim", TRUE),      OnNet(Probe("out", "wrongmagic"), "sim", FALSE),
              OnNet(Probe("in", "wrongmagic"), "regtest", TRUE),  OnNet(Probe("out", "wrongmagic"), "regtest", TRUE),
              OnNet(Probe("in", "wrongmagic"), "regtest", FALSE), OnNet(Probe("out", "wrongmagic"), "regtest", FALSE),
              OnNet(Probe("in", "malformed"), "regtest", TRUE),   OnNet(Probe("in", "malformed"), "test3", TRUE) >>

Core == <<
  \* queued during the negotiation, negotiation refused (verack first)
  <<Scn("in", 70016, <<M("verack")>>, FALSE, <<1>>, <<2>>, <<>>), St("lockstep", "start", "start", "hs", "none", FALSE, 0)>>,
  <<Scn("out", 70016, <<M("verack")>>, FALSE, <<1, 2>>, <<>>, <<"tx">>), St("lockstep", "start", "start", "start", "none", FALSE, 0)>>,
  \* queued during the negotiation, disconnected during the negotiation (silent remote)
  <<Scn("in", 70016, <<>>, FALSE, <<1>>, <<>>, <<>>), St("eager", "start", "start", "hs", "late", FALSE, 0)>>,
  <<Scn("out", 70016, <<Ver(70016)>>, FALSE, <<1>>, <<2>>, <<>>), St("eager", "start", "start", "hs", "late", FALSE, 0)>>,
  \* queued during the negotiation, negotiation succeeds: everything is sent
  <<Scn("in", 70016, HS(70016), FALSE, <<1, 2>>, <<3>>, <<"block">>), St("lockstep", "start", "start", "start", "late", FALSE, 0)>>,
  \* reader held after a read while the disconnect goes through (stallHandler exit)
  <<Scn("in", 70016, HS(70016) \o <<M("ping")>>, FALSE, <<1>>, <<>>, <<>>), St("lockstep", "hs", "hs", "hs", "stall", FALSE, 3)>>,
  <<Scn("out", 70016, HS(70017) \o <<M("getaddr")>>, FALSE, <<>>, <<>>, <<>>), St("lockstep", "hs", "hs", "hs", "stall", FALSE, 3)>>,
  \* backlog behind held writes, disconnect hits the backlog
  <<Scn("in", 70016, HS(70016), FALSE, <<1, 2, 3>>, <<>>, <<"block", "tx">>), St("lockstep", "hs", "hs", "hs", "mid", TRUE, 0)>>,
  <<Scn("out", 70016, HS(70016), FALSE, <<1, 2>>, <<3>>, <<>>), St("lockstep", "hs", "hs", "hs", "late", TRUE, 0)>>,
  <<Scn("in", 70016, HS(70016), TRUE, <<1, 2>>, <<3>>, <<"tx">>), St("lockstep", "hs", "hs", "hs", "none", TRUE, 0)>>,
  \* refusals
  <<Scn("in", 70016, <<Ver(208)>>, FALSE, <<>>, <<>>, <<>>), St("eager", "hs", "hs", "hs", "none", FALSE, 0)>>,
  <<Scn("out", 70016, <<Ver(208), M("verack")>>, FALSE, <<1>>, <<>>, <<>>), St("eager", "hs", "hs", "hs", "none", FALSE, 0)>>,
  <<Scn("in", 70016, <<R("ver", 70016, TRUE), M("verack")>>, FALSE, <<1>>, <<>>, <<>>), St("eager", "late", "hs", "hs", "none", FALSE, 0)>>,
  <<Scn("out", 70016, <<R("ver", 70016, TRUE), M("verack")>>, FALSE, <<>>, <<>>, <<>>), St("eager", "hs", "hs", "hs", "none", FALSE, 0)>>,
  <<Scn("in", 70016, <<M("wrongmagic")>>, FALSE, <<>>, <<>>, <<>>), St("eager", "hs", "hs", "hs", "none", FALSE, 0)>>,
  <<Scn("in", 70016, <<M("malformed")>>, TRUE, <<>>, <<>>, <<>>), St("eager", "hs", "hs", "hs", "none", FALSE, 0)>>,
  <<Scn("in", 70001, <<M("ping")>>, FALSE, <<>>, <<>>, <<>>), St("eager", "hs", "hs", "hs", "none", FALSE, 0)>>,
  <<Scn("out", 70016, <<Ver(70016), M("ping"), M("verack")>>, FALSE, <<1>>, <<>>, <<>>), St("eager", "late", "hs", "hs", "none", FALSE, 0)>>,
  <<Scn("in", 70015, <<Ver(70016), M("sendaddrv2"), M("verack")>>, FALSE, <<>>, <<>>, <<>>), St("lockstep", "hs", "hs", "hs", "none", FALSE, 0)>>,
  \* negotiated version at every threshold; pong / reject depend on it
  <<Scn("in", 70016, HS(209) \o <<M("ping"), M("malformed")>>, FALSE, <<1>>, <<>>, <<>>), St("lockstep", "hs", "hs", "hs", "none", FALSE, 0)>>,
  <<Scn("out", 70016, HS(60000) \o <<M("ping"), M("ver")>>, FALSE, <<1>>, <<>>, <<>>), St("lockstep", "hs", "hs", "hs", "none", FALSE, 0)>>,
  <<Scn("in", 70016, HS(60001) \o <<M("ping"), M("verack")>>, FALSE, <<1>>, <<>>, <<>>), St("lockstep", "hs", "hs", "hs", "none", FALSE, 0)>>,
  <<Scn("in", 70016, HS(70001) \o <<M("wrongmagic")>>, FALSE, <<>>, <<>>, <<>>), St("lockstep", "hs", "hs", "hs", "none", FALSE, 0)>>,
  <<Scn("out", 70016, HS(70002) \o <<M("malformed")>>, FALSE, <<1>>, <<>>, <<>>), St("lockstep", "hs", "hs", "hs", "none", FALSE, 0)>>,
  <<Scn("in", 60001, HS(70016) \o <<M("ping"), M("unknown"), M("getaddr")>>, TRUE, <<1>>, <<2>>, <<"tx">>), St("lockstep", "hs", "hs", "hs", "none", FALSE, 0)>>,
  <<Scn("out", 70016, <<Ver(70017), M("sendaddrv2"), M("unknown"), M("verack"), M("sendaddrv2")>>, FALSE, <<1>>, <<>>, <<>>), St("lockstep", "hs", "hs", "hs", "none", FALSE, 0)>>,
  <<Scn("in", 70016, <<Ver(70015), M("sendaddrv2"), M("verack")>>, FALSE, <<>>, <<>>, <<>>), St("lockstep", "hs", "hs", "hs", "none", FALSE, 0)>>,
  \* duplicates after the handshake, reject + wait racing with a disconnect
  <<Scn("in", 70016, HS(70016) \o <<M("verack")>>, FALSE, <<1, 2>>, <<3>>, <<>>), St("eager", "hs", "hs", "hs", "hs", FALSE, 0)>>,
  <<Scn("out", 70016, HS(70016) \o <<M("ver")>>, FALSE, <<1>>, <<>>, <<>>), St("eager", "hs", "hs", "hs", "mid", TRUE, 0)>>,
  <<Scn("in", 70016, HS(70016) \o <<M("ping"), M("ping"), M("malformed")>>, FALSE, <<1, 2, 3>>, <<>>, <<"tx", "tx">>), St("eager", "hs", "hs", "hs", "hs", FALSE, 0)>>,
  \* disconnect at the very start, remote close racing with senders
  <<Scn("in", 70016, HS(70016), FALSE, <<1>>, <<2>>, <<"tx">>), St("eager", "start", "start", "start", "start", FALSE, 0)>>,
  <<Scn("out", 70016, HS(70016), TRUE, <<1, 2>>, <<3>>, <<"block">>), St("eager", "hs", "late", "late", "none", FALSE, 0)>>
>>

PickCore ==
  /\ stage = "core"
  /\ \E c \in 1..Len(Core \o NetCore \o MoreCore \o FloodCore) :
        scn' = (Core \o NetCore \o MoreCore \o FloodCore)[c][1] /\ steer' = (Core \o NetCore \o MoreCore \o FloodCore)[c][2]
  /\ stage' = "done"
  /\ UNCHANGED <<script, good, tailLeft>>

Next == StartGood \/ StartAny \/ AddMsg \/ ChooseConn \/ ChooseNet \/ ChooseDisc \/ ChooseStarts \/ PickCore

Spec == Init /\ [][Next]_vars
=============================================================================
