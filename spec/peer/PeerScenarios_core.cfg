SPECIFICATION Spec
CONSTANTS
  Mode = "core"
  MaxTail = 3
