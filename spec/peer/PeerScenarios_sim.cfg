SPECIFICATION Spec
CONSTANTS
  Mode = "sim"
  MaxTail = 3
