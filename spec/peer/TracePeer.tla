----------------------------- MODULE TracePeer -----------------------------
(***************************************************************************)
(* Trace validation: every recorded execution of the real peer.Peer must   *)
(* be a behaviour of Peer.tla.  A trace is the sequence of externally      *)
(* observable events the harness logged (TraceData.tla, generated); the    *)
(* internal steps of the goroutines are not logged and TLC searches for    *)
(* them.  The traces of a batch are chained: when trace t has been matched *)
(* to its end the state is reset for trace t+1, so one depth-first TLC run *)
(* validates the whole batch; TLC prints one ACC line per matched trace    *)
(* with the specification's view of the outcome.                           *)
(*                                                                         *)
(* Event record: [e |-> kind, a |-> Nat, b |-> STRING, l |-> set]          *)
(***************************************************************************)
EXTENDS Peer, TLC, TraceData   \* TraceData: Traces, TraceScns (sequences of equal length)

CONSTANT Diag      \* TRUE: print the index of every matched event (diagnosis of a rejected trace)

VARIABLES tid, i, seen

tvars == <<tid, i, seen>>

NTraces == Len(Traces)
T       == Traces[tid]
Ev      == T[i]
More    == i <= Len(T)

Prog    == Diag => PrintT(<<"PROG", tid, i>>)
Adv     == i' = i + 1 /\ UNCHANGED <<tid, seen>> /\ Prog
Is(k)   == More /\ Ev.e = k

SenderOf(name) == CHOOSE s \in Senders : s = name

\* TLC register 2 holds the number of the trace being matched: states of traces
\* that have already been matched are not expanded again when the depth-first
\* search backtracks (one explanation per trace is enough).
TraceInit ==
  /\ TLCSet(2, 1)
  /\ tid = 1 /\ i = 1
  /\ InitFor(TraceScns[1])
  /\ seen = [m \in AllMsgs |-> 0]

Unfinished == {p \in PeerProcs : ~Finished(p)}
\* where a goroutine that never ends is blocked, as far as a goroutine dump shows it
LocClass(l) == CASE l \in {"sc", "sc1", "sc2", "sc3"}   -> "sc"     \* send on stallControl
                 [] l = "rjwait"                       -> "wait"   \* PushRejectMsg: <-doneChan
                 [] l \in {"rjput", "pongput", "put"}   -> "put"    \* outputQueue <- ...
                 [] OTHER                              -> "other"
UnfinishedAt == {p \o ":" \o LocClass(pc[p]) : p \in Unfinished}

Matched ==
  \/ Is("feed")   /\ RmFeed /\ fed' = Ev.a /\ Adv
  \/ Is("rclose") /\ RmClose /\ Adv
  \/ Is("sibwire") /\ SbWrite /\ Adv
  \/ Is("rd")     /\ (NgReadVer \/ NgReadLoop \/ IhRead) /\ rdn' = Ev.a /\ Adv
  \/ Is("wire") /\ Ev.b = "version"    /\ NgWriteOk("wver", "version", AfterWver) /\ Adv
  \/ Is("wire") /\ Ev.b = "sendaddrv2" /\ nego >= AddrV2PV /\ NgWriteOk("wsa", "sendaddrv2", "wva") /\ Adv
  \/ Is("wire") /\ Ev.b = "verack"     /\ NgWriteOk("wva", "verack", "rloop") /\ Adv
  \/ Is("wire") /\ Ev.b = "reject"     /\ (NgWrjOk \/ (ohMsg.k = "reject" /\ OhWriteOk)) /\ Adv
  \/ Is("wire") /\ Ev.b \in {"msg", "inv", "pong", "ping"} /\ ohMsg = Item(Ev.b, Ev.a) /\ OhWriteOk /\ Adv
  \/ Is("connclose") /\ (\E p \in {"st", "ih", "oh", "sh", "dc"} : DiscConn(p)) /\ Adv
  \/ Is("cb") /\ Ev.b = "version"    /\ NgPverVer /\ Adv
  \/ Is("cb") /\ Ev.b = "sendaddrv2" /\ NgPloopSendAddr /\ Adv
  \/ Is("cb") /\ Ev.b = "verack"     /\ NgPloopVerAck /\ Adv
  \/ Is("cb") /\ Ev.b \in {"ping", "getaddr"} /\ pc["ih"] = "cb" /\ CurMsg("ih").k = Ev.b /\ IhCallback /\ Adv
  \/ Is("qcall") /\ (\E s \in Senders : s = Ev.b /\ pc[s] = "idle" /\ SMsg(s) = Ev.a /\ SndCall(s)) /\ Adv
  \/ Is("qret")  /\ (\E s \in Senders : s = Ev.b /\ pc[s] = "ret" /\ SMsg(s) = Ev.a /\ SndRet(s)) /\ Adv
  \/ Is("icall") /\ IvCall /\ iidx = Ev.a /\ Adv
  \/ Is("iret")  /\ IvRet /\ iidx = Ev.a /\ Adv
  \/ Is("dcall") /\ DcCall /\ Adv
  \/ Is("dret")  /\ DcRet /\ Adv
  \/ Is("done")  /\ Ev.a \in AllMsgs /\ doneCnt[Ev.a] > seen[Ev.a]
                 /\ seen' = [seen EXCEPT ![Ev.a] = @ + 1]
                 /\ i' = i + 1 /\ UNCHANGED <<tid, vars>> /\ Prog
  \/ Is("wfd")   /\ quit /\ i' = i + 1 /\ UNCHANGED <<tid, seen, vars>> /\ Prog
  \* final census: which goroutines of the peer are left (and blocked), every signal that
  \* was sent has been received, and what the public getters report
  \/ Is("end")   /\ UnfinishedAt = Ev.l
                 /\ ~ENABLED Internal          \* the run is over: nothing is left that could still move
                 /\ (\A m \in AllMsgs : seen[m] = doneCnt[m])
                 /\ Ev.a = nego
                 /\ Ev.b = (IF versionKnown THEN "K" ELSE "k") \o (IF verAck THEN "A" ELSE "a")
                 /\ i' = i + 1 /\ UNCHANGED <<tid, seen, vars>> /\ Prog

Hidden == Internal /\ UNCHANGED tvars

Lost    == {m \in safe : doneCnt[m] = 0}
Verdict == [ refused      |-> Refused,
             started      |-> started,
             nego         |-> nego,
             versionKnown |-> versionKnown,
             verAck       |-> verAck,
             lost         |-> Lost,
             lostEarly    |-> {m \in Lost : TaintEarly(m)},
             aborted      |-> HandshakeAborted,
             stall        |-> shEarly,
             lateput      |-> (latePut \/ BlockedPut),
             leak         |-> Unfinished,
             leakAt       |-> {<<p, pc[p]>> : p \in Unfinished},
             wire         |-> Len(wireSeq) ]

NextTrace ==
  /\ i = Len(T) + 1
  /\ PrintT(<<"ACC", tid, Verdict>>)
  /\ IF tid = NTraces
       THEN TLCSet("exit", TRUE) /\ UNCHANGED <<tvars, vars>>
       ELSE /\ TLCSet(2, tid + 1)
            /\ tid' = tid + 1
            /\ i' = 1
            /\ ResetTo(TraceScns[tid + 1])
            /\ seen' = [m \in AllMsgsOf(TraceScns[tid + 1]) |-> 0]

TraceNext == tid >= TLCGet(2) /\ (Hidden \/ Matched \/ NextTrace)

TraceSpec == TraceInit /\ [][TraceNext]_<<vars, tvars>>

=============================================================================
