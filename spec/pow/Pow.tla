-------------------------------- MODULE Pow --------------------------------
(***************************************************************************)
(* C09, part (a): the header-history machine.                              *)
(*                                                                         *)
(* State: a network parameter set `net`, a header history `chain`          *)
(* (heights 0..Len-1, element = [time, bits]) and `expect`, the verdict of *)
(* the protocol definitions of PowDefs on every candidate next header the  *)
(* configuration asks about: median time past of the history, and for each *)
(* candidate (t, b) the required bits for timestamp t and the set of rules *)
(* the header breaks.  The only action, Extend, appends one of the         *)
(* candidates that break no rule and are marked extendable -- exactly what *)
(* a node does when it accepts a header -- so every reachable chain is a   *)
(* valid header chain of its network and TLC enumerates all of them for    *)
(* the configured timestamp alphabets.                                     *)
(*                                                                         *)
(* Networks are synthetic: periods of 4-6 blocks so that one and two       *)
(* retarget boundaries, minimum-difficulty runs of every length and the    *)
(* BIP94 first-block rule are reached within a dozen headers, but targets  *)
(* are full-width PowNat numbers (the pow limits of mainnet, signet and    *)
(* regtest, plus one 20-bit limit), so the arithmetic is the real one.     *)
(*                                                                         *)
(* The binder (harness/internal/pow) turns every reachable state into      *)
(* calls of the real btcd code and compares with `expect`.                 *)
(***************************************************************************)
EXTENDS PowDefs

CONSTANTS Nets        \* set of network records to explore (NetsQuick / NetsThorough)

VARIABLES net, chain, expect
vars == <<net, chain, expect>>

-----------------------------------------------------------------------------
(* candidate headers *)

Hist(c) == [h0 |-> 0, blocks |-> c]

\* timestamps a node may see next.  ext: the alphabet along which histories
\* are extended -- deltas to the previous block, for the last block of a
\* period also offsets to the period's first block (so that the measured
\* timespan hits the clamp edges), for the first block of a BIP94 period the
\* earliest allowed timestamp.  probe: boundary values of each time rule,
\* evaluated but not extended.
ExtTimes(n, c) ==
    LET L == Len(c)
        N == BlocksPerRetarget(n)
    IN       {c[L].time + d : d \in n.deltas}
       \cup (IF (L + 1) % N = 0
             THEN {c[L - N + 2].time + s : s \in n.spans} ELSE {})
       \cup (IF n.bip94 /\ L % N = 0 THEN {c[L].time - MaxTimeWarp} ELSE {})

ProbeTimes(n, c, m) ==
    LET L == Len(c)
        N == BlocksPerRetarget(n)
    IN       {m, m + 1, n.now + MaxFutureSecs, n.now + MaxFutureSecs + 1}
       \cup (IF n.reduce THEN {c[L].time + n.reduction, c[L].time + n.reduction + 1} ELSE {})
       \cup (IF n.bip94 /\ L % N = 0
             THEN {c[L].time - MaxTimeWarp - 1, c[L].time - MaxTimeWarp} ELSE {})

\* wrong bits tried at the nominal timestamp
Bump(b) == IF b[3] < TwoP23 - 1 THEN <<b[1], b[2], b[3] + 1>> ELSE <<b[1] + 1, b[2], 32768>>
WrongBits(n, c, req) ==
    LET L == Len(c)
        N == BlocksPerRetarget(n)
    IN  ({ c[L].bits, n.limitBits, Bump(req), Bump(n.limitBits),
           c[L - ((L - 1) % N)].bits,          \* first block of the current period
           <<req[1], 1, req[3]>>, <<0, 0, 0>>, <<req[1], 0, 0>> }) \ {req}

\* verdict on candidate (t, b): the rules it breaks (req, m: required bits for
\* t and median time past, computed once by the caller)
Verdict(n, c, t, b, req, m) ==
    LET N == BlocksPerRetarget(n)
        L == Len(c)
    IN  [ t |-> t, b |-> b,
          viol |->    {r \in {"target-range"} : ~TargetInRange(b, n.limit)}
                 \cup {r \in {"time-too-new"} : t > n.now + MaxFutureSecs}
                 \cup {r \in {"bad-diffbits"} : b # req}
                 \cup {r \in {"time-too-old"} : t <= m}
                 \cup {r \in {"timewarp"}     : n.bip94 /\ L % N = 0 /\ t < c[L].time - MaxTimeWarp} ]

\* Required depends on the candidate's timestamp only through the 20-minute
\* rule, so it is evaluated for one early and one late timestamp per history
\* (VerdictIsDefinition re-checks every candidate against the definition).
Expect(n, c) ==
    LET m     == MTP(Hist(c))
        prev  == c[Len(c)].time
        rE    == Required(Hist(c), prev, n)
        rL    == Required(Hist(c), prev + n.reduction + 1, n)
        req(t) == IF t > prev + n.reduction THEN rL ELSE rE
        t0    == prev + n.spacing
    IN  [ mtp    |-> m,
          probes |->      { Verdict(n, c, t, req(t), req(t), m)
                              : t \in ExtTimes(n, c) \cup ProbeTimes(n, c, m) }
                     \cup { Verdict(n, c, t0, b, req(t0), m) : b \in WrongBits(n, c, req(t0)) } ]

-----------------------------------------------------------------------------
(* the machine *)

NetOf(name) == CHOOSE n \in Nets : n.name = name

\* the first state of a network also announces its parameters to the binder
Init == /\ net \in {n.name : n \in Nets}
        /\ chain = << [time |-> NetOf(net).t0, bits |-> NetOf(net).genesisBits] >>
        /\ expect = [ mtp    |-> Expect(NetOf(net), chain).mtp,
                      probes |-> Expect(NetOf(net), chain).probes,
                      params |-> NetOf(net),
                      derived |-> [ blocksPerRetarget |-> BlocksPerRetarget(NetOf(net)),
                                    minSpan |-> MinSpan(NetOf(net)),
                                    maxSpan |-> MaxSpan(NetOf(net)) ] ]

\* a node accepts candidate p and the history grows by it
Extend(p) == /\ p.viol = {}
             /\ p.t \in ExtTimes(NetOf(net), chain)
             /\ Len(chain) < NetOf(net).maxLen
             /\ chain' = Append(chain, [time |-> p.t, bits |-> p.b])
             /\ expect' = Expect(NetOf(net), chain')
             /\ UNCHANGED net

Next == \E p \in expect.probes : Extend(p)

Spec == Init /\ [][Next]_vars

-----------------------------------------------------------------------------
(* what the protocol promises about every reachable history.  Every prefix *)
(* of a reachable chain is itself a reachable state, so statements about   *)
(* the newest header cover all headers.                                    *)

NP == NetOf(net)
Last == chain[Len(chain)]
Prefix == Hist(SubSeq(chain, 1, Len(chain) - 1))

\* the verdict the machine used agrees with the definition of PowDefs
\* (Violations) evaluated from scratch
VerdictIsDefinition ==
    \A p \in expect.probes : p.viol = Violations(Hist(chain), p.t, p.b, NP.now, NP)

\* every header after the first carries exactly the required bits, a later
\* timestamp than the median of its predecessors, and a target in range
ChainValid ==
    Len(chain) > 1 =>
        /\ Last.bits = Required(Prefix, Last.time, NP)
        /\ Last.time > MTP(Prefix)
        /\ TargetInRange(Last.bits, NP.limit)

\* cumulative work strictly increases: every in-range target has work >= 1
\* (target + 1 <= 2^256)
WorkPositive ==
    Len(chain) > 1 => Lt(CompactMag(Last.bits), Pow2(256))

\* at a period boundary the target moves by at most the adjustment factor
\* (up to the truncation of the compact encoding) and never above the limit
BoundaryBounded ==
    LET L == Len(chain)
        N == BlocksPerRetarget(NP)
    IN  (~NP.noRetarget /\ L > 1 /\ (L - 1) % N = 0) =>
        LET base == IF NP.bip94 THEN chain[L - N].bits ELSE chain[L - 1].bits
            old  == CompactMag(base)
            new  == CompactMag(chain[L].bits)
            lo   == DivSmall(old, NP.factor)
            cap(x) == IF Lt(NP.limit, x) THEN NP.limit ELSE x
        IN  /\ Leq(new, cap(MulSmall(old, NP.factor)))
            /\ (NP.timespan % NP.factor = 0 =>
                  Leq(CompactMag(BigToCompact(Pos(cap(lo)))), new))

\* inside a period of a network without the minimum-difficulty rule bits never change
InteriorConstant ==
    LET L == Len(chain)
        N == BlocksPerRetarget(NP)
    IN  (~NP.reduce /\ ~NP.noRetarget /\ L > 1 /\ (L - 1) % N # 0) =>
        chain[L].bits = chain[L - 1].bits

\* with the minimum-difficulty rule, bits inside a period are either the
\* limit or the bits of the period's first block
ReduceShape ==
    LET L == Len(chain)
        N == BlocksPerRetarget(NP)
    IN  (NP.reduce /\ ~NP.noRetarget /\ L > 1 /\ (L - 1) % N # 0) =>
        chain[L].bits \in {NP.limitBits, chain[L - ((L - 1) % N)].bits}

\* a network without retargeting only ever asks for its limit
NoRetargetConstant ==
    (NP.noRetarget /\ Len(chain) > 1) => Last.bits = NP.limitBits

-----------------------------------------------------------------------------
(* synthetic networks *)

Net(name, timespan, spacing, factor, limit, limitBits, genesisBits,
    reduce, bip94, noRetarget, maxLen, deltas, spans) ==
    [ name |-> name, timespan |-> timespan, spacing |-> spacing, factor |-> factor,
      limit |-> limit, limitBits |-> limitBits, genesisBits |-> genesisBits,
      reduce |-> reduce, reduction |-> 2 * spacing, bip94 |-> bip94,
      noRetarget |-> noRetarget, maxLen |-> maxLen, deltas |-> deltas, spans |-> spans,
      t0 |-> 1000000, now |-> 1050000 ]

MainLimit   == Ones(28)                                  \* 2^224 - 1
MainBits    == <<29, 0, 65535>>                          \* 0x1d00ffff
SigLimit    == ShlBytes(FromInt(227246), 27)             \* 0x0377ae << 216
SigBits     == <<30, 0, 227246>>                         \* 0x1e0377ae
RegLimit    == Ones(31) \o <<127>>                       \* 2^255 - 1
RegBits     == <<32, 0, 8388607>>                        \* 0x207fffff
SmallLimit  == <<255, 255, 15>>                          \* 2^20 - 1
SmallBits   == <<3, 0, 1048575>>                         \* 0x030fffff
MidBits     == <<27, 0, 263371>>                         \* 0x1b0404cb, 2^-16 of the main limit
SmallMid    == <<3, 0, 74565>>                           \* 0x012345
ThreeQBits  == <<29, 0, 49152>>                          \* 0x1d00c000, 3/4 of the main limit: a period
                                                         \* of 20-second blocks (no minimum-difficulty
                                                         \* exception) retargets onto the limit itself

\* period 4, spacing 10: timespan 40, clamp [10, 160], 20-second rule
SpansA == {9, 10, 11, 40, 159, 160, 161, 800}
SpansQ == {9, 10, 40, 160, 161, 800}
SpansS == {10, 40, 161, 800}

NetsQuick == {
  Net("plain-main-mid",  40, 10, 4, MainLimit, MainBits, MidBits,  FALSE, FALSE, FALSE, 7, {1, 10, 21}, SpansA),
  Net("plain-main-top",  40, 10, 4, MainLimit, MainBits, MainBits, FALSE, FALSE, FALSE, 6, {1, 10}, SpansA),
  Net("plain-small",     40, 10, 4, SmallLimit, SmallBits, SmallMid, FALSE, FALSE, FALSE, 6, {-3, 10}, SpansA),
  Net("reduce-main-mid", 40, 10, 4, MainLimit, MainBits, MidBits,  TRUE,  FALSE, FALSE, 9, {1, 21}, SpansS),
  Net("bip94-main-mid",  40, 10, 4, MainLimit, MainBits, MidBits,  TRUE,  TRUE,  FALSE, 9, {1, 21}, SpansS),
  \* the retarget lands on the limit: blocks at the limit that are NOT minimum-difficulty
  \* exceptions, so that the walk-back must stop at the first block of the period
  Net("reduce-main-3q",  40, 10, 4, MainLimit, MainBits, ThreeQBits, TRUE, FALSE, FALSE, 8, {20, 21}, {41, 60}),
  Net("bip94-main-3q",   40, 10, 4, MainLimit, MainBits, ThreeQBits, TRUE, TRUE,  FALSE, 8, {20, 21}, {41, 60}),
  Net("noretarget-reg",  40, 10, 4, RegLimit, RegBits, RegBits,    TRUE,  FALSE, TRUE,  6, {-3, 1, 21}, {}) }

NetsThorough == {
  Net("plain-main-mid",  40, 10, 4, MainLimit, MainBits, MidBits,  FALSE, FALSE, FALSE, 9, {1, 10, 21}, SpansA),
  Net("plain-main-top",  40, 10, 4, MainLimit, MainBits, MainBits, FALSE, FALSE, FALSE, 8, {1, 10}, SpansA),
  Net("plain-sig-mid",   40, 10, 4, SigLimit, SigBits, <<29, 0, 14202>>, FALSE, FALSE, FALSE, 8, {1, 10}, SpansA),
  Net("plain-small",     40, 10, 4, SmallLimit, SmallBits, SmallMid, FALSE, FALSE, FALSE, 8, {-3, 10}, SpansA),
  Net("plain-p6-f3",     42, 7, 3, MainLimit, MainBits, MidBits,   FALSE, FALSE, FALSE, 8, {1, 7, 15}, {13, 14, 15, 42, 125, 126, 127}),
  Net("reduce-main-mid", 40, 10, 4, MainLimit, MainBits, MidBits,  TRUE,  FALSE, FALSE, 10, {1, 20, 21}, SpansQ),
  Net("reduce-main-top", 40, 10, 4, MainLimit, MainBits, MainBits, TRUE,  FALSE, FALSE, 9, {1, 21}, SpansS),
  Net("reduce-p5",       50, 10, 4, MainLimit, MainBits, MidBits,  TRUE,  FALSE, FALSE, 11, {10, 21}, {12, 13, 50, 200, 201}),
  Net("bip94-main-mid",  40, 10, 4, MainLimit, MainBits, MidBits,  TRUE,  TRUE,  FALSE, 9, {1, 20, 21}, SpansQ),
  Net("bip94-p5",        50, 10, 4, MainLimit, MainBits, MidBits,  TRUE,  TRUE,  FALSE, 11, {10, 21}, {12, 13, 50, 200, 201, 900}),
  Net("bip94-noreduce",  40, 10, 4, MainLimit, MainBits, MidBits,  FALSE, TRUE,  FALSE, 9, {1, 10}, SpansA),
  Net("reduce-main-3q",  40, 10, 4, MainLimit, MainBits, ThreeQBits, TRUE, FALSE, FALSE, 10, {1, 20, 21}, {41, 53, 54, 60}),
  Net("bip94-main-3q",   40, 10, 4, MainLimit, MainBits, ThreeQBits, TRUE, TRUE,  FALSE, 9, {1, 20, 21}, {41, 53, 54, 60}),
  Net("noretarget-reg",  40, 10, 4, RegLimit, RegBits, RegBits,    TRUE,  FALSE, TRUE,  7, {-3, 1, 21}, {}),
  Net("noretarget-mid",  40, 10, 4, RegLimit, RegBits, MidBits,    FALSE, FALSE, TRUE,  6, {1, 21}, {}) }
=============================================================================
