------------------------------ MODULE PowCases ------------------------------
(***************************************************************************)
(* C09, parts (b) and (c) and the real networks: the definitions of        *)
(* PowDefs evaluated by TLC on enumerated inputs.  One state per case:     *)
(* `case` is the input, `expect` what the protocol definitions say about   *)
(* it.  Cases have no successors; the invariants are the algebraic laws     *)
(* the definitions must satisfy on every enumerated case (so that the      *)
(* definitions themselves are checked, e.g. Div against Mul, the class     *)
(* tests against the reference client's flag formulas, the closed form of  *)
(* canonical encodings, the issuance bound).  The binder feeds every case  *)
(* to the real btcd functions and compares with `expect`.                  *)
(*                                                                         *)
(* kinds:                                                                  *)
(*  compact  <<e,s,m>>            value, class, re-encoding, work          *)
(*  encode   [neg, mag]           compact encoding and its value           *)
(*  pair     <<c1, c2>>           two targets in order: work is antitone   *)
(*  hash     32 bytes             number of a hash                         *)
(*  pow      [hash, bits, limit]  proof-of-work verdict (hashes come from  *)
(*                                real headers: module PowGen is rewritten *)
(*                                by the binder before TLC runs)           *)
(*  subsidy  [interval, k]        epoch subsidy, heights around the        *)
(*                                halving, issuance through epoch k        *)
(*  net      name                 parameter table of a real network        *)
(*  real     scenario             a 2016-block period of a real network    *)
(*                                given by runs; required bits, verdicts   *)
(*  easiest  [net, d]             btcd's checkpoint bound: easiest target  *)
(*                                d seconds after a checkpoint             *)
(***************************************************************************)
EXTENDS PowDefs, PowGen

CONSTANTS Tier          \* "quick" or "thorough"

VARIABLES case, expect
vars == <<case, expect>>

Thorough == Tier = "thorough"
MaxInt32 == 2147483647

-----------------------------------------------------------------------------
(* compact *)

Exps  == IF Thorough THEN 0..40 \cup {63, 64, 127, 128, 200, 254, 255}
         ELSE 0..36 \cup {128, 255}
Mants == {0, 1, 127, 128, 255, 256, 32767, 32768, 65535, 65536, 8388607}
         \cup (IF Thorough THEN {2, 254, 257, 32769, 65537, 1193046, 4194304, 8388606, 8323072}
               ELSE {1193046})
CompactCases == {<<e, s, m>> : e \in Exps, s \in 0..1, m \in Mants}

\* closed form of the canonical compacts
CanonicalForm(c) ==
    \/ c = <<0, 0, 0>>
    \/ /\ c[1] >= 1
       /\ c[3] >= 32768
       /\ (c[1] >= 3 \/ c[3] % (256 ^ (3 - c[1])) = 0)

CompactExpect(c) ==
    LET v == CompactToBig(c) IN
    [ neg |-> v.neg, mag |-> v.mag, class |-> Class(c),
      back |-> BigToCompact(v), canonical |-> Canonical(c),
      work |-> Work(c) ]

CompactLaws ==
    case.kind = "compact" =>
        LET c == case.c
            v == CompactToBig(c)
            w == expect.work
            d == Add(v.mag, <<1>>)
        IN  /\ IsNat(v.mag)
            \* the reference client's flags are the sign and the 256-bit overflow
            /\ RefNegative(c) = v.neg
            /\ RefOverflow(c) = (Len(v.mag) > 32)
            /\ Canonical(c) = CanonicalForm(c)
            \* re-encoding the value of a compact gives a canonical compact of the same value
            /\ Canonical(expect.back)
            /\ CompactToBig(expect.back) = v
            \* work is the integer quotient: w*(t+1) <= 2^256 < (w+1)*(t+1)
            /\ (expect.class \in {"ok", "overflow"} =>
                   /\ Leq(Mul(w, d), Pow2(256))
                   /\ Lt(Pow2(256), Mul(Add(w, <<1>>), d)))
            /\ (expect.class \in {"zero", "negative"} => w = << >>)
            \* a target that fits 256 bits has work >= 1: cumulative work strictly increases
            /\ (expect.class = "ok" => Len(w) > 0)
            /\ (expect.class = "overflow" => Len(w) = 0)

-----------------------------------------------------------------------------
(* encode *)

Tops  == { <<1>>, <<127>>, <<128>>, <<255>>,
           <<0, 1>>, <<255, 127>>, <<0, 128>>, <<255, 255>>,
           <<0, 0, 1>>, <<255, 255, 127>>, <<0, 0, 128>>, <<1, 0, 128>>, <<255, 255, 255>>,
           <<86, 52, 18>>, <<0, 128, 0>> \o <<1>>, <<255, 255, 127, 255>>, <<255, 255, 255, 127>> }
Fills == {0, 255} \cup (IF Thorough THEN {1, 165} ELSE {})
Lens  == IF Thorough THEN 0..36 ELSE {0, 1, 2, 3, 4, 5, 25, 26, 27, 28, 29, 30, 31}
EncodeCases ==
    { [neg |-> FALSE, mag |-> << >>], [neg |-> TRUE, mag |-> << >>] } \cup
    { [neg |-> s, mag |-> [i \in 1..k |-> f] \o top] :
          s \in BOOLEAN, k \in Lens, f \in Fills, top \in {t \in Tops : t[Len(t)] # 0} }

EncodeExpect(x) ==
    LET y == [neg |-> x.neg /\ Len(x.mag) > 0, mag |-> x.mag]
        b == BigToCompact(y)
    IN  [ bits |-> b, back |-> CompactToBig(b) ]

EncodeLaws ==
    case.kind = "encode" =>
        LET x == case.x
            b == expect.bits
            y == expect.back
        IN  /\ IsNat(x.mag) /\ IsCompact(b) /\ Canonical(b)
            \* the encoding truncates: same sign, same length, never larger, and the
            \* loss is confined to the bytes below the mantissa window
            /\ y.neg = (x.neg /\ Len(x.mag) > 0)
            /\ Len(y.mag) = Len(x.mag)
            /\ Leq(y.mag, x.mag)
            /\ (b[1] > 3 => ShrBytes(y.mag, b[1] - 3) = ShrBytes(x.mag, b[1] - 3))
            /\ (Len(x.mag) <= 2 => y.mag = x.mag)

-----------------------------------------------------------------------------
(* pair: work is antitone in the target *)

PairBase == {<<e, 0, m>> : e \in {3, 4, 28, 29, 32}, m \in {32768, 65535, 65536, 8388606}}
            \cup {<<32, 0, 8388607>>, <<33, 0, 32768>>, <<33, 0, 65535>>}
Succ(b) == IF b[3] < TwoP23 - 1 THEN <<b[1], b[2], b[3] + 1>> ELSE <<b[1] + 1, b[2], 32768>>
PairCases == {<<c, Succ(c)>> : c \in PairBase}

PairExpect(p) == [ w1 |-> Work(p[1]), w2 |-> Work(p[2]) ]
PairLaws ==
    case.kind = "pair" =>
        /\ Lt(CompactMag(case.p[1]), CompactMag(case.p[2]))
        /\ Leq(expect.w2, expect.w1)

-----------------------------------------------------------------------------
(* hash, pow *)

HashCases ==
    { [i \in 1..32 |-> 0], [i \in 1..32 |-> 255],
      [i \in 1..32 |-> i], [i \in 1..32 |-> 256 - i],
      [i \in 1..32 |-> IF i = 1 THEN 1 ELSE 0], [i \in 1..32 |-> IF i = 32 THEN 1 ELSE 0],
      [i \in 1..32 |-> IF i = 32 THEN 128 ELSE 0], [i \in 1..32 |-> IF i <= 4 THEN 255 ELSE 0],
      [i \in 1..32 |-> IF i = 29 THEN 0 ELSE IF i > 29 THEN 0 ELSE 255],
      [i \in 1..32 |-> IF i = 17 THEN 7 ELSE 0] }
HashLaws == case.kind = "hash" => IsNat(expect.big) /\ Len(expect.big) <= 32

\* proof-of-work records written by the binder: [hash, bits, limit]
PowLimits == [ main |-> Ones(28), reg |-> Ones(31) \o <<127>>, full |-> Ones(32),
               tight |-> Zeros(29) \o <<255, 255>> ]
PowExpect(r) ==
    [ inRange |-> TargetInRange(r.bits, PowLimits[r.limit]),
      ok      |-> PowOK(r.hash, r.bits, PowLimits[r.limit]),
      limit   |-> PowLimits[r.limit], hashBig |-> HashToBig(r.hash) ]

-----------------------------------------------------------------------------
(* subsidy *)

Intervals == {210000, 150}
Epochs    == 0..70
SubsidyCases == {[interval |-> i, k |-> k] : i \in Intervals, k \in Epochs}
                \cup {[interval |-> i, k |-> MaxInt32 \div i] : i \in Intervals}

\* heights probed in epoch k: both sides of the halving, the middle and the
\* end of the epoch (the last epoch of the int32 range ends at MaxInt32)
SubsidyHeights(i, k) ==
    IF k = MaxInt32 \div i THEN {k * i - 1, k * i, MaxInt32}
    ELSE {h \in {k * i - 1, k * i, k * i + 1, k * i + (i \div 2), k * i + (i - 1)} : h >= 0}

SubsidyExpect(s) ==
    LET i == s.interval
        k == s.k
    IN  [ sub    |-> EpochSubsidy(k),
          at     |-> { [h |-> h, sub |-> Subsidy(h, i)] : h \in SubsidyHeights(i, k) },
          issued |-> IF k <= 70 THEN IssuedThrough(k, i) ELSE << >> ]

SubsidyLaws ==
    case.kind = "subsidy" =>
        LET i == case.s.interval
            k == case.s.k
        IN  /\ IsNat(expect.sub)
            /\ (k = 0 => expect.sub = BaseSub)
            /\ (k > 0 /\ k <= 70 => expect.sub = DivSmall(EpochSubsidy(k - 1), 2))
            /\ (k >= 33 => expect.sub = << >>)
            /\ (k <= 32 => Len(expect.sub) > 0)
            /\ (k <= 70 =>
                  \* inductive bound: issued through k + 2*interval*(subsidy of epoch k+1)
                  \* <= 2*interval*base   (2*floor(x/2) <= x keeps it inductive)
                  /\ Leq(Add(expect.issued, MulSmall(MulSmall(DivSmall(expect.sub, 2), 2), i)),
                         MulSmall(MulSmall(BaseSub, 2), i))
                  \* hence never more than 21 million coins with the 210000 interval
                  /\ (i = 210000 => Leq(expect.issued, MaxMoney)))

-----------------------------------------------------------------------------
(* real networks *)

RealNet(name, limit, limitBits, reduce, bip94, noRetarget, interval) ==
    [ name |-> name, timespan |-> 1209600, spacing |-> 600, factor |-> 4,
      limit |-> limit, limitBits |-> limitBits, reduce |-> reduce, reduction |-> 1200,
      bip94 |-> bip94, noRetarget |-> noRetarget, interval |-> interval, now |-> 1700000000 ]

RMainLimit == Ones(28)
RMainBits  == <<29, 0, 65535>>
RSigLimit  == ShlBytes(FromInt(227246), 27)
RSigBits   == <<30, 0, 227246>>
RRegLimit  == Ones(31) \o <<127>>
RRegBits   == <<32, 0, 8388607>>

RealNets == {
    RealNet("mainnet",  RMainLimit, RMainBits, FALSE, FALSE, FALSE, 210000),
    RealNet("testnet3", RMainLimit, RMainBits, TRUE,  FALSE, FALSE, 210000),
    RealNet("testnet4", RMainLimit, RMainBits, TRUE,  TRUE,  FALSE, 210000),
    RealNet("signet",   RSigLimit,  RSigBits,  FALSE, FALSE, FALSE, 210000),
    RealNet("regtest",  RRegLimit,  RRegBits,  TRUE,  FALSE, TRUE,  150),
    RealNet("simnet",   RRegLimit,  RRegBits,  TRUE,  FALSE, FALSE, 210000) }
RealNetOf(name) == CHOOSE n \in RealNets : n.name = name

NetExpect(n) ==
    [ timespan |-> n.timespan, spacing |-> n.spacing, factor |-> n.factor,
      limit |-> n.limit, limitBits |-> n.limitBits, reduce |-> n.reduce,
      reduction |-> n.reduction, bip94 |-> n.bip94, noRetarget |-> n.noRetarget,
      interval |-> n.interval, maxFuture |-> MaxFutureSecs,
      blocksPerRetarget |-> BlocksPerRetarget(n), minSpan |-> MinSpan(n), maxSpan |-> MaxSpan(n) ]
NetLaws ==
    case.kind = "net" =>
        \* the limit bits are the canonical encoding of (a truncation of) the limit
        /\ Canonical(expect.limitBits)
        /\ expect.limitBits = BigToCompact(Pos(expect.limit))
        /\ expect.blocksPerRetarget = 2016

\* a scenario: blocks of one period starting at height h0, given by runs
\* <<[n, dt, bits], ...>>: n blocks, each dt after its predecessor (the very
\* first block sits at t0); a candidate header at time newT.
RECURSIVE Expand(_, _)
Expand(runs, t) ==
    IF Len(runs) = 0 THEN << >>
    ELSE LET r == runs[1]
             seg == [j \in 1..r.n |-> [time |-> t + j * r.dt, bits |-> r.bits]]
         IN  seg \o Expand(Tail(runs), t + r.n * r.dt)
ScenChain(s) ==
    [h0 |-> s.h0, blocks |-> <<[time |-> s.t0, bits |-> s.runs[1].bits]>> \o
                             Expand(<<[s.runs[1] EXCEPT !.n = @ - 1]>> \o Tail(s.runs), s.t0)]

Lower(n) == IF n.name = "signet" THEN {<<29, 0, 14202>>}
            ELSE IF n.limitBits = RRegBits THEN {<<29, 0, 65535>>, <<31, 0, 4194304>>}
            ELSE {<<27, 0, 263371>>, <<23, 0, 928456>>}
RealSpans == {-100, 302399, 302400, 302401, 1209599, 1209600, 1209601,
              4838399, 4838400, 4838401, 9000000}
              \cup (IF Thorough THEN {0, 1, 604800, 1022578, 2419200, 4000000} ELSE {})
RealBases == IF Thorough THEN {0, 2016, 201600, 840672} ELSE {0, 201600}
T0 == 1600000000

\* boundary: 2015 blocks 600 s apart, then the last block of the period placed
\* so that last - first = span; k trailing minimum-difficulty blocks
BoundaryScen(n, h0, B, span, k) ==
    [ net |-> n.name, h0 |-> h0, t0 |-> T0,
      runs |-> IF k = 0 THEN << [n |-> 2015, dt |-> 600, bits |-> B],
                                [n |-> 1, dt |-> span - 2014 * 600, bits |-> B] >>
               ELSE << [n |-> 2015 - k, dt |-> 600, bits |-> B],
                       [n |-> k, dt |-> 1201, bits |-> n.limitBits],
                       [n |-> 1, dt |-> span - (2014 - k) * 600 - k * 1201, bits |-> n.limitBits] >>,
      newT |-> T0 + span + 600 ]

\* interior: first block of the period with bits B, a normal blocks, then r
\* minimum-difficulty blocks; candidate d seconds after the tip
InteriorScen(n, h0, B, a, r, d) ==
    [ net |-> n.name, h0 |-> h0, t0 |-> T0,
      runs |-> << [n |-> 1 + a, dt |-> 600, bits |-> B] >> \o
               (IF r = 0 THEN << >> ELSE << [n |-> r, dt |-> 1201, bits |-> n.limitBits] >>),
      newT |-> T0 + a * 600 + r * 1201 + d ]

RetargetNets == {n \in RealNets : ~n.noRetarget}
BoundaryCases(n, h0) ==
    LET Bs == Lower(n) IN
         { BoundaryScen(n, h0, B, sp, 0) : B \in Bs \cup {n.limitBits}, sp \in RealSpans }
    \cup (IF n.reduce /\ h0 = 201600
          THEN { BoundaryScen(n, h0, B, sp, k) :
                     B \in Bs, sp \in {302400, 1209600, 1500000}, k \in {1, 5} }
          ELSE {})
InteriorCases(n) ==
    { InteriorScen(n, 201600, B, a, r, d) :
          B \in Lower(n), a \in {0, 7},
          r \in {0, 1, 12} \cup (IF Thorough THEN {2007} ELSE {300}),
          d \in {1, 600, 1200, 1201} }

\* across a boundary: the last three blocks of a period with bits B, then the
\* first block of the next period carrying the limit as its retarget result,
\* then r more blocks at the limit; candidate d seconds after the tip.  The
\* walk-back must stop at the period's first block (limit), not run on into
\* the previous period (B).
CrossScen(n, B, r, d) ==
    [ net |-> n.name, h0 |-> 201600 - 3, t0 |-> T0,
      runs |-> << [n |-> 3, dt |-> 600, bits |-> B], [n |-> 1, dt |-> 600, bits |-> n.limitBits] >> \o
               (IF r = 0 THEN << >> ELSE << [n |-> r, dt |-> 1201, bits |-> n.limitBits] >>),
      newT |-> T0 + 3 * 600 + r * 1201 + d ]
CrossCases(n) ==
    { CrossScen(n, B, r, d) :
          B \in Lower(n) \cup (IF n.limitBits = RMainBits THEN {<<28, 0, 8388480>>} ELSE {}),
          r \in {0, 1, 12} \cup (IF Thorough THEN {2014} ELSE {}), d \in {600, 1200, 1201} }

RealExpect(s) ==
    LET n   == RealNetOf(s.net)
        c   == ScenChain(s)
        req == Required(c, s.newT, n)
        alt == Succ(req)
    IN  [ mtp |-> MTP(c), req |-> req, tipHeight |-> TipHeight(c), tipTime |-> Tip(c).time, now |-> n.now,
          probes |-> { [t |-> s.newT, b |-> b, viol |-> Violations(c, s.newT, b, n.now, n)]
                         : b \in {req, alt, n.limitBits, Tip(c).bits} } ]
RealLaws ==
    case.kind = "real" =>
        /\ IsCompact(expect.req)
        /\ \A p \in expect.probes : (p.b = expect.req) = ("bad-diffbits" \notin p.viol)

-----------------------------------------------------------------------------
(* easiest: synthetic networks whose block 1 is a checkpoint *)

EasyNet(name, limit, limitBits, genesisBits, reduce) ==
    [ name |-> name, timespan |-> 40, spacing |-> 10, factor |-> 4,
      limit |-> limit, limitBits |-> limitBits, genesisBits |-> genesisBits,
      reduce |-> reduce, reduction |-> 20, bip94 |-> FALSE, noRetarget |-> FALSE,
      t0 |-> 1000000, now |-> 1050000 ]
EasyNets == {
    EasyNet("easy-mid",        RMainLimit, RMainBits, <<27, 0, 263371>>, FALSE),
    EasyNet("easy-mid-reduce", RMainLimit, RMainBits, <<27, 0, 263371>>, TRUE),
    EasyNet("easy-odd",        RMainLimit, RMainBits, <<28, 0, 1193046>>, FALSE),
    EasyNet("easy-top",        RMainLimit, RMainBits, RMainBits, FALSE) }
EasyDurations == {0, 1, 20, 21, 160, 161, 320, 321, 480, 481, 640, 641, 1120, 1121, 1280, 1281, 5000}
EasiestCases == {[net |-> n, d |-> d] : n \in EasyNets, d \in EasyDurations}

\* candidate block bits: the bound itself, its neighbours, the checkpoint's
\* bits and their factor multiples, the limit
EasiestExpect(x) ==
    LET n  == x.net
        e  == Easiest(n.genesisBits, x.d, n)
        up(b) == BigToCompact(Pos(MulSmall(CompactMag(b), n.factor)))
        cand == { e, Succ(e), n.genesisBits, up(n.genesisBits), up(up(n.genesisBits)),
                  Succ(up(n.genesisBits)), n.limitBits,
                  BigToCompact(Pos(DivSmall(CompactMag(e), 2))) }
    IN  [ easiest |-> e,
          probes  |-> { [b |-> b, tooLow |-> TooEasy(b, n.genesisBits, x.d, n)]
                          : b \in {c \in cand : TargetInRange(c, n.limit)} } ]
EasiestLaws ==
    case.kind = "easiest" =>
        LET n == case.x.net IN
        /\ TargetInRange(expect.easiest, n.limit)
        \* never harder than where the chain stood, never beyond factor^ceil(d/max)
        /\ Leq(CompactMag(n.genesisBits), CompactMag(expect.easiest))
        /\ (case.x.d = 0 => expect.easiest = n.genesisBits)
        /\ \A p \in expect.probes : p.b = expect.easiest => ~p.tooLow

-----------------------------------------------------------------------------

(* The cases are reached in two steps, root -> group -> case, only so that *)
(* TLC's workers share the evaluation; a group is a slice of one kind.     *)

None == [none |-> TRUE]
Groups ==
         {[of |-> "compact", e |-> e] : e \in Exps}
    \cup {[of |-> "encode", k |-> k] : k \in Lens}
    \cup {[of |-> o] : o \in {"pair", "hash", "pow", "net"}}
    \cup {[of |-> "subsidy", interval |-> i] : i \in Intervals}
    \cup {[of |-> "boundary", net |-> n.name, h0 |-> h0] : n \in RetargetNets, h0 \in RealBases}
    \cup {[of |-> "interior", net |-> n.name] : n \in RealNets}
    \cup {[of |-> "easiest", net |-> n.name] : n \in EasyNets}
    \cup {[of |-> "cross", net |-> n.name] : n \in {x \in RetargetNets : x.reduce}}

Init == case = [kind |-> "root"] /\ expect = None

Group == /\ case.kind = "root"
         /\ \E g \in Groups : case' = [kind |-> "group", g |-> g]
         /\ expect' = None

Pick ==
    /\ case.kind = "group"
    /\ LET g == case.g IN
       \/ /\ g.of = "compact"
          /\ \E s \in 0..1, m \in Mants :
                /\ case' = [kind |-> "compact", c |-> <<g.e, s, m>>]
                /\ expect' = CompactExpect(<<g.e, s, m>>)
       \/ /\ g.of = "encode"
          /\ \E x \in {y \in EncodeCases : Len(y.mag) = 0 /\ g.k = 0}
                     \cup {[neg |-> s, mag |-> [i \in 1..g.k |-> f] \o top] :
                              s \in BOOLEAN, f \in Fills, top \in Tops} :
                case' = [kind |-> "encode", x |-> x] /\ expect' = EncodeExpect(x)
       \/ /\ g.of = "pair"
          /\ \E p \in PairCases : case' = [kind |-> "pair", p |-> p] /\ expect' = PairExpect(p)
       \/ /\ g.of = "hash"
          /\ \E h \in HashCases : case' = [kind |-> "hash", h |-> h] /\ expect' = [big |-> HashToBig(h)]
       \/ /\ g.of = "pow"
          /\ \E r \in PowRecords : case' = [kind |-> "pow", r |-> r] /\ expect' = PowExpect(r)
       \/ /\ g.of = "subsidy"
          /\ \E s \in {x \in SubsidyCases : x.interval = g.interval} :
                case' = [kind |-> "subsidy", s |-> s] /\ expect' = SubsidyExpect(s)
       \/ /\ g.of = "net"
          /\ \E n \in RealNets : case' = [kind |-> "net", name |-> n.name] /\ expect' = NetExpect(n)
       \/ /\ g.of = "boundary"
          /\ \E s \in BoundaryCases(RealNetOf(g.net), g.h0) :
                case' = [kind |-> "real", s |-> s] /\ expect' = RealExpect(s)
       \/ /\ g.of = "interior"
          /\ \E s \in InteriorCases(RealNetOf(g.net)) :
                case' = [kind |-> "real", s |-> s] /\ expect' = RealExpect(s)
       \/ /\ g.of = "cross"
          /\ \E s \in CrossCases(RealNetOf(g.net)) :
                case' = [kind |-> "real", s |-> s] /\ expect' = RealExpect(s)
       \/ /\ g.of = "easiest"
          /\ \E x \in {y \in EasiestCases : y.net.name = g.net} :
                case' = [kind |-> "easiest", x |-> x] /\ expect' = EasiestExpect(x)

Next == Group \/ Pick

Spec == Init /\ [][Next]_vars
=============================================================================
