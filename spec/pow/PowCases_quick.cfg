SPECIFICATION Spec
CONSTANT Tier = "quick"
INVARIANTS CompactLaws EncodeLaws PairLaws HashLaws SubsidyLaws NetLaws RealLaws EasiestLaws
