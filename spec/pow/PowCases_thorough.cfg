SPECIFICATION Spec
CONSTANT Tier = "thorough"
INVARIANTS CompactLaws EncodeLaws PairLaws HashLaws SubsidyLaws NetLaws RealLaws EasiestLaws
