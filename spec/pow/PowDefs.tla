------------------------------ MODULE PowDefs ------------------------------
(***************************************************************************)
(* Protocol definitions behind property C09, as pure operators:            *)
(*   (b) the compact target format on the triple <<exponent, sign,         *)
(*       mantissa>>, its value, the three invalid classes, encoding with   *)
(*       normalisation, per-block work, the proof-of-work predicate;       *)
(*   (a) the difficulty rules on a header history: required bits of the    *)
(*       next header (no-retarget nets, interior of a period incl. the     *)
(*       20-minute minimum-difficulty rule and its walk-back, the period   *)
(*       boundary with clamp, pow-limit cap and the BIP94 base target),    *)
(*       median time past, header acceptance;                              *)
(*   (c) the subsidy schedule and its sum.                                 *)
(* Numbers wider than TLC's 32-bit integers are PowNat byte sequences, so  *)
(* all of this is evaluated by TLC at the full 256-bit width.              *)
(*                                                                         *)
(* A compact value is <<e, s, m>>: e \in 0..255 (bits 31-24), s \in 0..1   *)
(* (bit 23), m \in 0..2^23-1 (bits 22-0).                                  *)
(* A header history is [h0 |-> height of the first element, blocks |->     *)
(* sequence of [time, bits]]; the machine in Pow.tla uses h0 = 0.          *)
(***************************************************************************)
EXTENDS PowNat, FiniteSets

Min(a, b) == IF a < b THEN a ELSE b
TwoP23 == 8388608

-----------------------------------------------------------------------------
(* (b) compact format *)

IsCompact(c) == c[1] \in 0..255 /\ c[2] \in 0..1 /\ c[3] \in 0..(TwoP23 - 1)

\* magnitude: mantissa * 256^(e-3), shifting right (dropping bytes) for e < 3
CompactMag(c) == IF c[1] <= 3 THEN FromInt(c[3] \div (256 ^ (3 - c[1])))
                 ELSE ShlBytes(FromInt(c[3]), c[1] - 3)

\* signed value; minus zero is zero
CompactToBig(c) == LET mag == CompactMag(c)
                   IN  [neg |-> (c[2] = 1 /\ Len(mag) > 0), mag |-> mag]

\* The reference client's reading of the same word (arith_uint256::SetCompact):
\* a 256-bit value plus the two flags fNegative and fOverflow.
RefWord(c)     == IF c[1] <= 3 THEN c[3] \div (256 ^ (3 - c[1])) ELSE c[3]
RefNegative(c) == RefWord(c) # 0 /\ c[2] = 1
RefOverflow(c) == RefWord(c) # 0 /\ (\/ c[1] > 34
                                     \/ (RefWord(c) > 255 /\ c[1] > 33)
                                     \/ (RefWord(c) > 65535 /\ c[1] > 32))

\* classes of a compact value used as a target
Class(c) == LET v == CompactToBig(c)
            IN  IF Len(v.mag) = 0 THEN "zero"
                ELSE IF v.neg THEN "negative"
                ELSE IF Len(v.mag) > 32 THEN "overflow"
                ELSE "ok"

\* encoding: exponent = number of significant bytes, mantissa = the top three
\* bytes; when that would set bit 23 the mantissa loses one more byte
BigToCompact(x) ==
    IF Len(x.mag) = 0 THEN <<0, 0, 0>>
    ELSE LET n   == Len(x.mag)
             m0  == IF n <= 3 THEN ToInt(x.mag) * (256 ^ (3 - n))
                    ELSE ToInt(SubSeq(x.mag, n - 2, n))
             big == m0 >= TwoP23
         IN  << IF big THEN n + 1 ELSE n,
                IF x.neg THEN 1 ELSE 0,
                IF big THEN m0 \div 256 ELSE m0 >>

Pos(mag) == [neg |-> FALSE, mag |-> mag]

\* values the encoding reproduces exactly: at most three significant bytes
\* below bit 23, or two when bit 23 of the top-three-bytes window is set
Representable(mag) == CompactMag(BigToCompact(Pos(mag))) = mag

\* canonical compacts: the image of BigToCompact
Canonical(c) == BigToCompact(CompactToBig(c)) = c

\* the target range test of the proof-of-work check
TargetInRange(c, limit) == Class(c) = "ok" /\ Leq(CompactMag(c), limit)

\* work of one block: floor(2^256 / (target+1)), zero for non-positive targets
Work(c) == IF Class(c) \in {"zero", "negative"} THEN << >>
           ELSE Div(Pow2(256), Add(CompactMag(c), <<1>>))

\* a 32-byte hash is its own little-endian number
HashToBig(h) == Norm(h)
PowOK(h, c, limit) == TargetInRange(c, limit) /\ Leq(HashToBig(h), CompactMag(c))

-----------------------------------------------------------------------------
(* (a) difficulty rules on a header history *)

\* A network: [timespan, spacing, factor, limit (PowNat), limitBits (compact),
\*             reduce, reduction, bip94, noRetarget]  (+ fields the machine adds)
BlocksPerRetarget(n) == n.timespan \div n.spacing
MinSpan(n)           == n.timespan \div n.factor
MaxSpan(n)           == n.timespan * n.factor
MaxFutureSecs        == 7200
MaxTimeWarp          == 600
MedianBlocks         == 11

TipIdx(c)    == Len(c.blocks)
TipHeight(c) == c.h0 + Len(c.blocks) - 1
Tip(c)       == c.blocks[Len(c.blocks)]
\* element at height h (h0 <= h <= TipHeight)
At(c, h)     == c.blocks[h - c.h0 + 1]

Clamp(x, lo, hi) == IF x < lo THEN lo ELSE IF x > hi THEN hi ELSE x

\* new compact target from a base target and the measured timespan
Retarget(baseBits, actual, n) ==
    LET adj == Clamp(actual, MinSpan(n), MaxSpan(n))
        new == DivSmall(MulSmall(CompactMag(baseBits), adj), n.timespan)
    IN  BigToCompact(Pos(IF Lt(n.limit, new) THEN n.limit ELSE new))

\* bits of the last block, walking back from height h, that is not a
\* minimum-difficulty block; the walk stops at the first block of a period
RECURSIVE WalkBack(_, _, _)
WalkBack(c, h, n) ==
    IF h < c.h0 THEN n.limitBits
    ELSE IF h % BlocksPerRetarget(n) # 0 /\ At(c, h).bits = n.limitBits
         THEN WalkBack(c, h - 1, n)
         ELSE At(c, h).bits

\* required bits of a header with timestamp t on top of history c
Required(c, t, n) ==
    LET N == BlocksPerRetarget(n)
        h == TipHeight(c)
    IN  IF n.noRetarget THEN n.limitBits
        ELSE IF (h + 1) % N # 0 THEN
            IF n.reduce
            THEN IF t > Tip(c).time + n.reduction THEN n.limitBits
                 ELSE WalkBack(c, h, n)
            ELSE Tip(c).bits
        ELSE LET first == At(c, h - (N - 1))
             IN  Retarget(IF n.bip94 THEN first.bits ELSE Tip(c).bits,
                          Tip(c).time - first.time, n)

\* median time past: element number (k \div 2) (from 0) of the sorted last
\* k = min(11, available) timestamps -- for even k the upper middle one
MTP(c) ==
    LET L  == Len(c.blocks)
        k  == Min(MedianBlocks, L)
        I  == (L - k + 1)..L
        ix == k \div 2
    IN  CHOOSE x \in {c.blocks[i].time : i \in I} :
            /\ Cardinality({i \in I : c.blocks[i].time < x}) <= ix
            /\ ix < Cardinality({i \in I : c.blocks[i].time <= x})

\* rules a header (t, b) on top of c breaks; accepted iff the set is empty.
\* "target-range" and "time-too-new" are context free (header sanity), the
\* other three depend on the history (header context).
Violations(c, t, b, now, n) ==
    LET N == BlocksPerRetarget(n) IN
       {r \in {"target-range"} : ~TargetInRange(b, n.limit)}
    \cup {r \in {"time-too-new"} : t > now + MaxFutureSecs}
    \cup {r \in {"bad-diffbits"} : b # Required(c, t, n)}
    \cup {r \in {"time-too-old"} : t <= MTP(c)}
    \cup {r \in {"timewarp"}     : /\ n.bip94
                                   /\ (TipHeight(c) + 1) % N = 0
                                   /\ t < Tip(c).time - MaxTimeWarp}
SanityRules  == {"target-range", "time-too-new"}
ContextRules == {"bad-diffbits", "time-too-old", "timewarp"}

\* btcd's sanity bound behind a checkpoint (ProcessBlock; not a rule of the
\* protocol, specified as btcd documents it): the easiest target a chain can
\* have reached d seconds after a block with the given bits -- the target may
\* grow by the adjustment factor once per maximal retarget timespan, up to the
\* limit; on a network with the minimum-difficulty rule the limit itself is
\* allowed as soon as d exceeds the reduction time.
RECURSIVE Grow(_, _, _)
Grow(t, d, n) == IF d <= 0 \/ ~Lt(t, n.limit) THEN t
                 ELSE Grow(MulSmall(t, n.factor), d - MaxSpan(n), n)
Easiest(bits, d, n) ==
    IF n.reduce /\ d > n.reduction THEN n.limitBits
    ELSE LET g == Grow(CompactMag(bits), d, n)
         IN  BigToCompact(Pos(IF Lt(n.limit, g) THEN n.limit ELSE g))
\* a block offered d seconds after the checkpoint is refused when its target
\* is above that bound
TooEasy(b, cpBits, d, n) == Lt(CompactMag(Easiest(cpBits, d, n)), CompactMag(b))

-----------------------------------------------------------------------------
(* (c) subsidy *)

Coin      == MulSmall(FromInt(10000), 10000)             \* 10^8 base units
BaseSub   == MulSmall(Coin, 50)
MaxMoney  == MulSmall(MulSmall(Coin, 21000), 1000)        \* 21 000 000 coins

RECURSIVE Halve(_, _)
Halve(x, k) == IF k = 0 \/ Len(x) = 0 THEN x ELSE Halve(DivSmall(x, 2), k - 1)

\* subsidy of a block in halving epoch k, and at height h
EpochSubsidy(k)        == Halve(BaseSub, k)
Subsidy(h, interval)   == EpochSubsidy(h \div interval)

\* total issued in epochs 0..k  (each epoch has `interval` blocks)
RECURSIVE IssuedThrough(_, _)
IssuedThrough(k, interval) ==
    Add(MulSmall(EpochSubsidy(k), interval),
        IF k = 0 THEN << >> ELSE IssuedThrough(k - 1, interval))
=============================================================================
