------------------------------- MODULE PowGen -------------------------------
(***************************************************************************)
(* Proof-of-work records [hash |-> 32 bytes (little endian, as in a        *)
(* chainhash.Hash), bits |-> <<e,s,m>>, limit |-> name in PowLimits].      *)
(* The binder overwrites this module with the hashes of real block headers *)
(* it built (the hash of a header cannot be chosen, so these inputs come   *)
(* from the code and the verdicts from the specification).  The two        *)
(* records below only keep the module well-formed on its own.              *)
(***************************************************************************)
PowRecords == {
  [ hash |-> <<1,2,3,4,5,6,7,8,9,10,11,12,13,14,15,16,17,18,19,20,21,22,23,24,25,26,27,28,29,30,31,32>>,
    bits |-> <<32, 0, 8388607>>, limit |-> "reg" ],
  [ hash |-> <<1,2,3,4,5,6,7,8,9,10,11,12,13,14,15,16,17,18,19,20,21,22,23,24,25,26,27,28,29,30,31,32>>,
    bits |-> <<33, 0, 8192>>, limit |-> "full" ] }
=============================================================================
