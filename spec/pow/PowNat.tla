------------------------------ MODULE PowNat ------------------------------
(***************************************************************************)
(* Natural numbers of arbitrary width for TLC, whose built-in integers are *)
(* 32-bit.  A number is the sequence of its base-256 digits, least         *)
(* significant first, without leading (= trailing in the sequence) zeros;  *)
(* zero is << >>.  Base 256 is the base of the compact target format's     *)
(* exponent and the byte order is that of a block hash, so CompactToBig,   *)
(* BigToCompact and HashToBig become statements about byte positions.      *)
(*                                                                         *)
(* Every intermediate integer below stays under 2^31:                      *)
(*   MulSmall  k < 2^23 : 255*k + carry(<k)      < 2^31                    *)
(*   DivSmall  d < 2^23 : rem(<d)*256 + 255      < 2^31                    *)
(***************************************************************************)
EXTENDS Integers, Sequences

IsNat(a) == /\ \A i \in 1..Len(a) : a[i] \in 0..255
            /\ (Len(a) > 0 => a[Len(a)] # 0)

RECURSIVE Norm(_)
Norm(a) == IF Len(a) = 0 THEN << >>
           ELSE IF a[Len(a)] = 0 THEN Norm(SubSeq(a, 1, Len(a) - 1))
           ELSE a

RECURSIVE FromInt(_)
FromInt(n) == IF n = 0 THEN << >> ELSE <<n % 256>> \o FromInt(n \div 256)

\* only for values below 2^31
RECURSIVE ToInt(_)
ToInt(a) == IF Len(a) = 0 THEN 0 ELSE a[1] + 256 * ToInt(Tail(a))

Zeros(k) == [i \in 1..k |-> 0]
Ones(k)  == [i \in 1..k |-> 255]

\* a * 256^k
ShlBytes(a, k) == IF Len(a) = 0 THEN << >> ELSE Zeros(k) \o a
\* a \div 256^k
ShrBytes(a, k) == IF Len(a) <= k THEN << >> ELSE SubSeq(a, k + 1, Len(a))

Pow2(k) == Zeros(k \div 8) \o << 2 ^ (k % 8) >>          \* 2^k

RECURSIVE CmpFrom(_, _, _)
CmpFrom(a, b, i) == IF i = 0 THEN 0
                    ELSE IF a[i] < b[i] THEN -1
                    ELSE IF a[i] > b[i] THEN 1
                    ELSE CmpFrom(a, b, i - 1)
\* -1, 0, 1
Cmp(a, b) == IF Len(a) < Len(b) THEN -1
             ELSE IF Len(a) > Len(b) THEN 1
             ELSE CmpFrom(a, b, Len(a))
Leq(a, b) == Cmp(a, b) <= 0
Lt(a, b)  == Cmp(a, b) < 0

\* a*k + c   (k < 2^23, c < k or a = 0)
RECURSIVE MulSmallC(_, _, _)
MulSmallC(a, k, c) ==
    IF Len(a) = 0 THEN FromInt(c)
    ELSE LET v == a[1] * k + c
         IN  <<v % 256>> \o MulSmallC(Tail(a), k, v \div 256)
MulSmall(a, k) == IF k = 0 THEN << >> ELSE Norm(MulSmallC(a, k, 0))

\* [q, r] with a = q*d + r, 0 <= r < d   (0 < d < 2^23)
RECURSIVE DivModSmallR(_, _)
DivModSmallR(a, d) ==
    IF Len(a) = 0 THEN [q |-> << >>, r |-> 0]
    ELSE LET hi  == DivModSmallR(Tail(a), d)
             cur == hi.r * 256 + a[1]
         IN  [q |-> <<cur \div d>> \o hi.q, r |-> cur % d]
DivSmall(a, d) == Norm(DivModSmallR(a, d).q)
ModSmall(a, d) == DivModSmallR(a, d).r

\* a + b + carry
RECURSIVE AddC(_, _, _)
AddC(a, b, c) ==
    IF Len(a) = 0 /\ Len(b) = 0 THEN FromInt(c)
    ELSE LET x == IF Len(a) = 0 THEN 0 ELSE a[1]
             y == IF Len(b) = 0 THEN 0 ELSE b[1]
             v == x + y + c
         IN  <<v % 256>> \o AddC(IF Len(a) = 0 THEN a ELSE Tail(a),
                                 IF Len(b) = 0 THEN b ELSE Tail(b), v \div 256)
Add(a, b) == Norm(AddC(a, b, 0))

\* a - b - borrow, requires a >= b
RECURSIVE SubB(_, _, _)
SubB(a, b, bw) ==
    IF Len(a) = 0 THEN << >>
    ELSE LET y == IF Len(b) = 0 THEN 0 ELSE b[1]
             v == a[1] - y - bw
         IN  <<IF v < 0 THEN v + 256 ELSE v>>
             \o SubB(Tail(a), IF Len(b) = 0 THEN b ELSE Tail(b), IF v < 0 THEN 1 ELSE 0)
Sub(a, b) == Norm(SubB(a, b, 0))

\* largest g in lo..hi with b*g <= cur   (b*lo <= cur is given)
RECURSIVE Digit(_, _, _, _)
Digit(b, cur, lo, hi) ==
    IF lo = hi THEN lo
    ELSE LET mid == (lo + hi + 1) \div 2
         IN  IF Leq(MulSmall(b, mid), cur) THEN Digit(b, cur, mid, hi)
             ELSE Digit(b, cur, lo, mid - 1)

\* [q, r] with a = q*b + r, 0 <= r < b   (b # 0), schoolbook long division
RECURSIVE DivModR(_, _)
DivModR(a, b) ==
    IF Len(a) = 0 THEN [q |-> << >>, r |-> << >>]
    ELSE LET hi  == DivModR(Tail(a), b)
             cur == Norm(<<a[1]>> \o hi.r)
             g   == IF Lt(cur, b) THEN 0 ELSE Digit(b, cur, 1, 255)
         IN  [q |-> <<g>> \o hi.q, r |-> IF g = 0 THEN cur ELSE Sub(cur, MulSmall(b, g))]
Div(a, b) == Norm(DivModR(a, b).q)

\* general product (used to state the division property, not to compute targets)
RECURSIVE Mul(_, _)
Mul(a, b) == IF Len(a) = 0 THEN << >>
             ELSE Add(MulSmall(b, a[1]), ShlBytes(Mul(Tail(a), b), 1))
=============================================================================
