\* the optimised verdict of the machine against the definition evaluated from scratch
SPECIFICATION Spec
CONSTANT Nets <- NetsQuick
INVARIANTS VerdictIsDefinition
