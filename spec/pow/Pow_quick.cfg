SPECIFICATION Spec
CONSTANT Nets <- NetsQuick
INVARIANTS ChainValid WorkPositive BoundaryBounded InteriorConstant ReduceShape NoRetargetConstant
