SPECIFICATION Spec
CONSTANT Nets <- NetsQuick
INVARIANTS VerdictIsDefinition ChainValid WorkPositive BoundaryBounded InteriorConstant ReduceShape NoRetargetConstant
