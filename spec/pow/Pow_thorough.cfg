SPECIFICATION Spec
CONSTANT Nets <- NetsThorough
INVARIANTS VerdictIsDefinition ChainValid WorkPositive BoundaryBounded InteriorConstant ReduceShape NoRetargetConstant
