SPECIFICATION Spec
CONSTANT Nets <- NetsThorough
INVARIANTS ChainValid WorkPositive BoundaryBounded InteriorConstant ReduceShape NoRetargetConstant
