------------------------------- MODULE RecNat -------------------------------
(***************************************************************************)
(* Natural numbers of arbitrary width for TLC (whose integers are 32-bit). *)
(* A number is the sequence of its base-128 digits, least significant      *)
(* first, without most-significant zeros; zero is << >>.  Base 128 is the  *)
(* base of the variable-length quantity of blockchain/compress.go, so the  *)
(* VLQ becomes a recurrence on digits: n % 128 is the first digit,         *)
(* n \div 128 the tail.                                                    *)
(*                                                                         *)
(* Intermediate integers stay far below 2^31:                              *)
(*   MulAdd  k <= 2^16, c < 2^16 : 127*k + c      < 2^24                   *)
(*   DivMod  d <= 2^16           : rem(<d)*128+127 < 2^24                  *)
(***************************************************************************)
EXTENDS Integers, Sequences

IsNat(a) == /\ \A i \in 1..Len(a) : a[i] \in 0..127
            /\ (Len(a) > 0 => a[Len(a)] # 0)

RECURSIVE Norm(_)
Norm(a) == IF Len(a) = 0 THEN << >>
           ELSE IF a[Len(a)] = 0 THEN Norm(SubSeq(a, 1, Len(a) - 1))
           ELSE a

\* native integer (>= 0) -> number
RECURSIVE FromInt(_)
FromInt(n) == IF n = 0 THEN << >> ELSE <<n % 128>> \o FromInt(n \div 128)

\* number -> native integer, only for values below 2^31
RECURSIVE ToInt(_)
ToInt(a) == IF Len(a) = 0 THEN 0 ELSE a[1] + 128 * ToInt(Tail(a))

Zeros(k) == [i \in 1..k |-> 0]

\* d + 128*a
Cons(d, a) == IF d = 0 /\ Len(a) = 0 THEN << >> ELSE <<d>> \o a
\* a % 128 and a \div 128
Low(a)  == IF Len(a) = 0 THEN 0 ELSE a[1]
Shr7(a) == IF Len(a) = 0 THEN << >> ELSE Tail(a)

RECURSIVE CmpFrom(_, _, _)
CmpFrom(a, b, i) == IF i = 0 THEN 0
                    ELSE IF a[i] < b[i] THEN -1
                    ELSE IF a[i] > b[i] THEN 1
                    ELSE CmpFrom(a, b, i - 1)
\* -1, 0, 1
Cmp(a, b) == IF Len(a) < Len(b) THEN -1
             ELSE IF Len(a) > Len(b) THEN 1
             ELSE CmpFrom(a, b, Len(a))
Leq(a, b) == Cmp(a, b) <= 0
Lt(a, b)  == Cmp(a, b) < 0

\* a*k + c
RECURSIVE MulAddC(_, _, _)
MulAddC(a, k, c) ==
    IF Len(a) = 0 THEN FromInt(c)
    ELSE LET v == a[1] * k + c
         IN  <<v % 128>> \o MulAddC(Tail(a), k, v \div 128)
MulAdd(a, k, c) == Norm(MulAddC(a, k, c))
Inc(a) == MulAdd(a, 1, 1)

\* a - 1, requires a > 0
RECURSIVE Dec1R(_)
Dec1R(a) == IF a[1] > 0 THEN <<a[1] - 1>> \o Tail(a)
            ELSE <<127>> \o Dec1R(Tail(a))
Dec1(a) == Norm(Dec1R(a))

\* [q, r] with a = q*d + r, 0 <= r < d
RECURSIVE DivModR(_, _)
DivModR(a, d) ==
    IF Len(a) = 0 THEN [q |-> << >>, r |-> 0]
    ELSE LET hi  == DivModR(Tail(a), d)
             cur == hi.r * 128 + a[1]
         IN  [q |-> <<cur \div d>> \o hi.q, r |-> cur % d]
DivMod(a, d) == LET x == DivModR(a, d) IN [q |-> Norm(x.q), r |-> x.r]

\* 2^k
Pow2(k) == Zeros(k \div 7) \o << 2 ^ (k % 7) >>
Two31 == Pow2(31)
Two32 == Pow2(32)
Two63 == Pow2(63)
Two64 == Pow2(64)

\* a % 2^k : what a k-bit unsigned machine word keeps
ModPow2(a, k) ==
    LET q == k \div 7
        r == k % 7
    IN  IF Len(a) <= q THEN a
        ELSE Norm(SubSeq(a, 1, q) \o << a[q + 1] % (2 ^ r) >>)

RECURSIVE MulPow10(_, _)
MulPow10(a, k) == IF k = 0 THEN a ELSE MulPow10(MulAdd(a, 10, 0), k - 1)
RECURSIVE DivPow10(_, _)
DivPow10(a, k) == IF k = 0 THEN a ELSE DivPow10(DivMod(a, 10).q, k - 1)

\* decimal digits, most significant first -> number
RECURSIVE DecR(_, _)
DecR(ds, acc) == IF Len(ds) = 0 THEN acc ELSE DecR(Tail(ds), MulAdd(acc, 10, ds[1]))
Dec(ds) == DecR(ds, << >>)

\* the n little-endian bytes of a (a < 256^n)
RECURSIVE ToLE(_, _)
ToLE(a, n) == IF n = 0 THEN << >>
              ELSE LET x == DivMod(a, 256) IN <<x.r>> \o ToLE(x.q, n - 1)
Reverse(s) == [i \in 1..Len(s) |-> s[Len(s) + 1 - i]]
ToBE(a, n) == Reverse(ToLE(a, n))

\* little-endian bytes -> number
RECURSIVE FromLE(_)
FromLE(bs) == IF Len(bs) = 0 THEN << >> ELSE MulAdd(FromLE(Tail(bs)), 256, bs[1])
FromBE(bs) == FromLE(Reverse(bs))

\* bytewise lexicographic order (a proper prefix sorts first), the order of
\* database keys
RECURSIVE LexLt(_, _)
LexLt(a, b) == IF Len(b) = 0 THEN FALSE
               ELSE IF Len(a) = 0 THEN TRUE
               ELSE IF a[1] < b[1] THEN TRUE
               ELSE IF a[1] > b[1] THEN FALSE
               ELSE LexLt(Tail(a), Tail(b))
=============================================================================
