------------------------------- MODULE Records -------------------------------
(***************************************************************************)
(* C15: the persisted chain-state records of btcd                          *)
(* (blockchain/compress.go, chainio.go, upgrade.go) as byte layouts.       *)
(*                                                                         *)
(* Numbers are RecNat numbers (base-128 digits), bytes are 0..255, a       *)
(* script / hash / record is a sequence of bytes.  Every encoder returns   *)
(* the exact byte sequence of the documented format; every Size operator   *)
(* is the length of that sequence computed the way the code computes it;   *)
(* every Decode operator is the reference reader of the format over        *)
(* ARBITRARY byte strings: it returns [err |-> TRUE] where the format has  *)
(* run out of data and a value otherwise, and it never reads outside the   *)
(* string.  Machine-word effects of the code (uint64 wrap of an over-long  *)
(* VLQ, int32 truncation of a height) are part of the reference because    *)
(* they decide what value an arbitrary byte string stands for.             *)
(*                                                                         *)
(* Curve arithmetic is not modelled: module RecordsGen (written by the     *)
(* binder from real keys, checked there with independent big-integer       *)
(* arithmetic) lists points of secp256k1 and x coordinates that have no    *)
(* point; a 33/65-byte key is valid iff the table says so.  All key-shaped *)
(* scripts of the cases draw their coordinates from that table.            *)
(***************************************************************************)
EXTENDS RecNat, RecordsGen

Nil == << >>
From(s, i) == SubSeq(s, i, Len(s))
Err == [err |-> TRUE]

RECURSIVE Concat(_)
Concat(ss) == IF Len(ss) = 0 THEN << >> ELSE ss[1] \o Concat(Tail(ss))

-----------------------------------------------------------------------------
(* Variable length quantity: MSB-first base 128, high bit = "another byte  *)
(* follows", and one is subtracted each time seven bits are shifted out,   *)
(* so that every number has exactly one encoding.                          *)

\* the bytes above the final one: all carry the continuation bit
RECURSIVE VLQHigh(_)
VLQHigh(a) == (IF Len(a) <= 1 THEN << >> ELSE VLQHigh(Dec1(Tail(a)))) \o <<128 + Low(a)>>
VLQ(a) == (IF Len(a) <= 1 THEN << >> ELSE VLQHigh(Dec1(Tail(a)))) \o <<Low(a)>>

\* serializeSizeVLQ: the counting loop
RECURSIVE SizeVLQ(_)
SizeVLQ(a) == IF Len(a) <= 1 THEN 1 ELSE 1 + SizeVLQ(Dec1(Tail(a)))

\* deserializeVLQ over arbitrary bytes: value (as the uint64 keeps it) and
\* number of bytes consumed; an empty string gives (0, 0), a string of
\* continuation bytes only is consumed entirely
RECURSIVE DecVLQR(_, _, _)
DecVLQR(bs, i, acc) ==
    IF i > Len(bs) THEN [val |-> acc, size |-> i - 1]
    ELSE LET n == Cons(bs[i] % 128, acc)
         IN  IF bs[i] < 128 THEN [val |-> n, size |-> i]
             ELSE DecVLQR(bs, i + 1, Inc(n))
DecVLQ(bs) == LET r == DecVLQR(bs, 1, << >>) IN [val |-> ModPow2(r.val, 64), size |-> r.size]

\* smallest number whose encoding has k bytes: 128 + 128^2 + ... + 128^(k-1)
MinOfLen(k) == IF k = 1 THEN << >> ELSE <<0>> \o [i \in 1..(k - 1) |-> 1]

\* the same on native integers (values below 2^24), used for dense ranges
RECURSIVE VLQHighInt(_)
VLQHighInt(n) == (IF n <= 127 THEN << >> ELSE VLQHighInt((n \div 128) - 1)) \o <<128 + (n % 128)>>
VLQInt(n) == (IF n <= 127 THEN << >> ELSE VLQHighInt((n \div 128) - 1)) \o <<n % 128>>

-----------------------------------------------------------------------------
(* Amount compression: 0 -> 0; otherwise e = number of trailing decimal    *)
(* zeros (at most 9); for e < 9 the last non-zero digit d is split off:    *)
(* 1 + 10*(9*n + d - 1) + e; for e = 9: 1 + 10*(n - 1) + 9.               *)

RECURSIVE TrailingZeros(_, _)
TrailingZeros(a, cap) ==
    IF cap = 0 THEN 0
    ELSE LET x == DivMod(a, 10)
         IN  IF x.r # 0 THEN 0 ELSE 1 + TrailingZeros(x.q, cap - 1)

Compress(a) ==
    IF Len(a) = 0 THEN << >>
    ELSE LET e == TrailingZeros(a, 9)
             m == DivPow10(a, e)
         IN  IF e < 9
             THEN LET x == DivMod(m, 10) IN MulAdd(MulAdd(x.q, 9, x.r - 1), 10, 1 + e)
             ELSE MulAdd(Dec1(m), 10, 10)

Decompress(c) ==
    IF Len(c) = 0 THEN << >>
    ELSE LET x == DivMod(Dec1(c), 10)
             e == x.r
             n == IF e < 9
                  THEN LET y == DivMod(x.q, 9) IN MulAdd(y.q, 10, y.r + 1)
                  ELSE Inc(x.q)
         IN  MulPow10(n, e)

\* what 64-bit unsigned arithmetic computes
CompressCoded(a)   == ModPow2(Compress(a), 64)
DecompressCoded(c) == ModPow2(Decompress(c), 64)
Fits64(a) == Lt(a, Two64)

\* native integers (amounts below 2^27)
RECURSIVE TrailingZerosInt(_, _)
TrailingZerosInt(a, cap) == IF cap = 0 \/ a % 10 # 0 THEN 0 ELSE 1 + TrailingZerosInt(a \div 10, cap - 1)
CompressInt(a) ==
    IF a = 0 THEN 0
    ELSE LET e == TrailingZerosInt(a, 9)
             m == a \div (10 ^ e)
         IN  IF e < 9 THEN 1 + 10 * (9 * (m \div 10) + (m % 10) - 1) + e
             ELSE 10 + 10 * (m - 1)

-----------------------------------------------------------------------------
(* Script compression: a decision table in the order the code tests.       *)

OP_DUP == 118   OP_HASH160 == 169   OP_EQUALVERIFY == 136   OP_CHECKSIG == 172
OP_EQUAL == 135 OP_DATA_20 == 20    OP_DATA_33 == 33        OP_DATA_65 == 65

P2PKH(h)      == <<OP_DUP, OP_HASH160, OP_DATA_20>> \o h \o <<OP_EQUALVERIFY, OP_CHECKSIG>>
P2SH(h)       == <<OP_HASH160, OP_DATA_20>> \o h \o <<OP_EQUAL>>
P2PKC(pfx, x) == <<OP_DATA_33, pfx>> \o x \o <<OP_CHECKSIG>>
P2PKU(pfx, x, y) == <<OP_DATA_65, pfx>> \o x \o y \o <<OP_CHECKSIG>>

PointSet == {Points[i] : i \in 1..Len(Points)}
OnCurveX(x)     == \E p \in PointSet : p.x = x
OnCurveXY(x, y) == \E p \in PointSet : p.x = x /\ (p.y = y \/ p.ny = y)
\* the y coordinate of given parity over x (x on the curve)
YOf(x, odd) == LET p == CHOOSE q \in PointSet : q.x = x
               IN  IF p.odd = odd THEN p.y ELSE p.ny

IsPKH(s) == /\ Len(s) = 25 /\ s[1] = OP_DUP /\ s[2] = OP_HASH160 /\ s[3] = OP_DATA_20
            /\ s[24] = OP_EQUALVERIFY /\ s[25] = OP_CHECKSIG
IsSH(s)  == Len(s) = 23 /\ s[1] = OP_HASH160 /\ s[2] = OP_DATA_20 /\ s[23] = OP_EQUAL
IsPKC(s) == /\ Len(s) = 35 /\ s[1] = OP_DATA_33 /\ s[35] = OP_CHECKSIG /\ s[2] \in {2, 3}
            /\ OnCurveX(SubSeq(s, 3, 34))
IsPKU(s) == /\ Len(s) = 67 /\ s[1] = OP_DATA_65 /\ s[67] = OP_CHECKSIG /\ s[2] = 4
            /\ OnCurveXY(SubSeq(s, 3, 34), SubSeq(s, 35, 66))

\* 0..5 for the special forms, 6 + length otherwise (the value of the leading VLQ)
ScriptType(s) == IF IsPKH(s) THEN 0
                 ELSE IF IsSH(s) THEN 1
                 ELSE IF IsPKC(s) THEN s[2]
                 ELSE IF IsPKU(s) THEN 4 + (s[66] % 2)
                 ELSE 6 + Len(s)

CompressScript(s) ==
    LET t == ScriptType(s)
    IN  IF t = 0 THEN <<0>> \o SubSeq(s, 4, 23)
        ELSE IF t = 1 THEN <<1>> \o SubSeq(s, 3, 22)
        ELSE IF t \in 2..5 THEN <<t>> \o SubSeq(s, 3, 34)
        ELSE VLQ(FromInt(t)) \o s

\* compressedScriptSize
ScriptSize(s) ==
    LET t == ScriptType(s)
    IN  IF t \in 0..1 THEN 21 ELSE IF t \in 2..5 THEN 33 ELSE SizeVLQ(FromInt(t)) + Len(s)

\* decodeCompressedScriptSize over arbitrary bytes (strings shorter than 2^21
\* bytes).  A script cannot be larger than the data that holds it: when the
\* size field says more than Len(bs) bytes the answer is Len(bs) + 1 -- "more
\* than is there" -- whatever the field holds (2^63, 2^64-1, ...), so that the
\* caller's missing-data test fails and nothing is converted, added or sliced
\* with a wrapped number.  (btcd before commit f6dd0b47 converted the field
\* unbounded and panicked on such records; big marks those inputs.)
ScriptSizeOf(bs) ==
    LET v == DecVLQ(bs)
    IN  IF v.size = 0 THEN [big |-> FALSE, n |-> 0]
        ELSE IF Len(v.val) > 3 THEN [big |-> TRUE, n |-> Len(bs) + 1]
        ELSE LET t == ToInt(v.val)
             IN  IF t \in 0..1 THEN [big |-> FALSE, n |-> 21]
                 ELSE IF t \in 2..5 THEN [big |-> FALSE, n |-> 33]
                 ELSE IF t - 6 > Len(bs) THEN [big |-> TRUE, n |-> Len(bs) + 1]
                 ELSE [big |-> FALSE, n |-> t - 6 + v.size]

\* decompressScript of a string that holds exactly ScriptSizeOf bytes
DecompressScript(cs) ==
    IF Len(cs) = 0 THEN Nil
    ELSE LET v == DecVLQ(cs)
             t == ToInt(v.val)
             r == v.size
         IN  IF t = 0 THEN P2PKH(SubSeq(cs, r + 1, r + 20))
             ELSE IF t = 1 THEN P2SH(SubSeq(cs, r + 1, r + 20))
             ELSE IF t \in 2..3 THEN P2PKC(t, SubSeq(cs, r + 1, r + 32))
             ELSE IF t \in 4..5 THEN
                  LET x == SubSeq(cs, 2, 33)
                  IN  IF OnCurveX(x) THEN P2PKU(4, x, YOf(x, t = 5)) ELSE Nil
             ELSE SubSeq(cs, r + 1, r + t - 6)

-----------------------------------------------------------------------------
(* Compressed txout = VLQ(compressed amount) ++ compressed script          *)

TxOutEnc(amount, script) == VLQ(CompressCoded(amount)) \o CompressScript(script)
TxOutSize(amount, script) == SizeVLQ(CompressCoded(amount)) + ScriptSize(script)

\* decodeCompressedTxOut over arbitrary bytes
DecodeTxOut(bs) ==
    LET v == DecVLQ(bs)
    IN  IF v.size >= Len(bs) THEN [err |-> TRUE, read |-> v.size]
        ELSE LET rest == From(bs, v.size + 1)
                 ss   == ScriptSizeOf(rest)
             IN  IF ss.big \/ Len(rest) < ss.n THEN [err |-> TRUE, read |-> v.size]
                 ELSE [err |-> FALSE, amount |-> DecompressCoded(v.val),
                       script |-> DecompressScript(SubSeq(rest, 1, ss.n)),
                       read |-> v.size + ss.n]

-----------------------------------------------------------------------------
(* Utxo entry: VLQ(height*2 + coinbase) ++ compressed txout;               *)
(* key: tx hash ++ VLQ(output index)                                       *)

HeaderCode(height, cb) == MulAdd(FromInt(height), 2, IF cb THEN 1 ELSE 0)
UtxoEnc(u)  == VLQ(HeaderCode(u.height, u.cb)) \o TxOutEnc(u.amount, u.script)
UtxoSize(u) == SizeVLQ(HeaderCode(u.height, u.cb)) + TxOutSize(u.amount, u.script)
OutpointKey(hash, index) == hash \o VLQ(index)

\* the 32 low bits of code \div 2: what int32(code >> 1) keeps
CodeHeight(code) == ModPow2(DivMod(code, 2).q, 32)
CodeCB(code)     == Low(code) % 2 = 1

DecodeUtxo(bs) ==
    LET v == DecVLQ(bs)
    IN  IF v.size >= Len(bs) THEN Err
        ELSE LET t == DecodeTxOut(From(bs, v.size + 1))
             IN  IF t.err THEN Err
                 ELSE [err |-> FALSE, cb |-> CodeCB(v.val), h32 |-> CodeHeight(v.val),
                       amount |-> t.amount, script |-> t.script]

-----------------------------------------------------------------------------
(* Spend journal: per spent output VLQ(height*2 + coinbase), one reserved  *)
(* VLQ when the height is non-zero (it was the transaction version in the  *)
(* v1 journal; written as 0 now), compressed txout; the entries of a block *)
(* in the reverse of spending order.  Entries with height 0 ("no header",  *)
(* written by old versions for all but the last spend of a transaction)    *)
(* have no reserved field.                                                 *)

StxoEncV(s, version) ==
    VLQ(HeaderCode(s.height, s.cb)) \o (IF s.height > 0 THEN VLQ(version) ELSE << >>)
        \o TxOutEnc(s.amount, s.script)
StxoEnc(s)  == StxoEncV(s, << >>)
StxoSize(s) == SizeVLQ(HeaderCode(s.height, s.cb)) + (IF s.height > 0 THEN 1 ELSE 0)
                   + TxOutSize(s.amount, s.script)

RECURSIVE JournalEncV(_, _)
JournalEncV(stxos, version) ==
    IF Len(stxos) = 0 THEN << >>
    ELSE StxoEncV(stxos[Len(stxos)], version) \o JournalEncV(SubSeq(stxos, 1, Len(stxos) - 1), version)
JournalEnc(stxos) == JournalEncV(stxos, << >>)
RECURSIVE JournalSize(_)
JournalSize(stxos) == IF Len(stxos) = 0 THEN 0 ELSE StxoSize(stxos[1]) + JournalSize(Tail(stxos))

\* decodeSpentTxOut over arbitrary bytes (read = offset the code returns)
DecodeStxo(bs) ==
    IF Len(bs) = 0 THEN [err |-> TRUE, read |-> 0]
    ELSE LET v == DecVLQ(bs)
         IN  IF v.size >= Len(bs) THEN [err |-> TRUE, read |-> v.size]
             ELSE LET h32 == CodeHeight(v.val)
                      pos == Len(h32) > 0 /\ Lt(h32, Two31)     \* int32 height > 0
                      off == v.size + (IF pos THEN DecVLQ(From(bs, v.size + 1)).size ELSE 0)
                  IN  IF pos /\ off >= Len(bs) THEN [err |-> TRUE, read |-> off]
                      ELSE LET t == DecodeTxOut(From(bs, off + 1))
                           IN  IF t.err THEN [err |-> TRUE, read |-> off + t.read]
                               ELSE [err |-> FALSE, cb |-> CodeCB(v.val), h32 |-> h32,
                                     amount |-> t.amount, script |-> t.script,
                                     read |-> off + t.read]

RECURSIVE SumSeq(_)
SumSeq(s) == IF Len(s) = 0 THEN 0 ELSE s[1] + SumSeq(Tail(s))

\* k entries from offset off; acc in reading order
RECURSIVE DecodeJournalR(_, _, _, _)
DecodeJournalR(bs, off, k, acc) ==
    IF k = 0 THEN [err |-> FALSE, acc |-> acc]
    ELSE LET d == DecodeStxo(From(bs, off + 1))
         IN  IF d.err THEN [err |-> TRUE, acc |-> acc]
             ELSE DecodeJournalR(bs, off + d.read, k - 1,
                      Append(acc, [cb |-> d.cb, h32 |-> d.h32, amount |-> d.amount, script |-> d.script]))

\* deserializeSpendJournalEntry: counts = inputs per (non-coinbase) transaction
DecodeJournal(bs, counts) ==
    LET n == SumSeq(counts)
    IN  IF Len(bs) = 0 THEN (IF n # 0 THEN Err ELSE [err |-> FALSE, stxos |-> << >>])
        ELSE LET r == DecodeJournalR(bs, 0, n, << >>)
             IN  IF r.err THEN Err ELSE [err |-> FALSE, stxos |-> Reverse(r.acc)]

-----------------------------------------------------------------------------
(* Best chain state: hash(32) height(u32 LE) total txns(u64 LE)            *)
(* work-sum length(u32 LE) work sum (big-endian magnitude)                 *)

BestEnc(b) == b.hash \o ToLE(b.height, 4) \o ToLE(b.txns, 8) \o ToLE(FromInt(Len(b.work)), 4) \o b.work

RECURSIVE StripZeros(_)
StripZeros(bs) == IF Len(bs) > 0 /\ bs[1] = 0 THEN StripZeros(Tail(bs)) ELSE bs

DecodeBest(bs) ==
    IF Len(bs) < 48 THEN Err
    ELSE LET wl == FromLE(SubSeq(bs, 45, 48))
         IN  IF Len(wl) > 3 \/ Len(bs) - 48 < ToInt(wl) THEN Err
             ELSE [err |-> FALSE, hash |-> SubSeq(bs, 1, 32), height |-> FromLE(SubSeq(bs, 33, 36)),
                   txns |-> FromLE(SubSeq(bs, 37, 44)),
                   work |-> StripZeros(SubSeq(bs, 49, 48 + ToInt(wl)))]

-----------------------------------------------------------------------------
(* Block index row: key = height (u32 BIG endian) ++ hash;                 *)
(* value = 80-byte block header ++ status byte                             *)

HeaderEnc(h) == ToLE(h.version, 4) \o h.prev \o h.merkle \o ToLE(h.time, 4) \o ToLE(h.bits, 4) \o ToLE(h.nonce, 4)
RowEnc(r)    == HeaderEnc(r.header) \o <<r.status>>
RowKey(hash, height) == ToBE(height, 4) \o hash

DecodeRow(bs) ==
    IF Len(bs) < 81 THEN Err
    ELSE [err |-> FALSE,
          header |-> [version |-> FromLE(SubSeq(bs, 1, 4)), prev |-> SubSeq(bs, 5, 36),
                      merkle |-> SubSeq(bs, 37, 68), time |-> FromLE(SubSeq(bs, 69, 72)),
                      bits |-> FromLE(SubSeq(bs, 73, 76)), nonce |-> FromLE(SubSeq(bs, 77, 80))],
          status |-> bs[81]]

-----------------------------------------------------------------------------
(* Legacy (version 1 bucket) utxo entry, one per transaction:              *)
(* VLQ(tx version) VLQ(height) VLQ(header code) bitmap txouts...           *)
(* header code: bit0 coinbase, bit1 output 0 unspent, bit2 output 1        *)
(* unspent, bits 3.. number of bitmap bytes (minus one when neither        *)
(* output 0 nor 1 is unspent).  Read by the utxo-set migration.            *)

SetMax(S) == CHOOSE m \in S : \A x \in S : x <= m
RECURSIVE SumBits(_, _, _)
SumBits(idxs, base, j) == IF j > 7 THEN 0
                          ELSE (IF (base + j) \in idxs THEN 2 ^ j ELSE 0) + SumBits(idxs, base, j + 1)

\* l.outs: sequence of [idx, amount, script] with strictly increasing idx, not empty
LegacyEnc(l) ==
    LET idxs   == {l.outs[i].idx : i \in 1..Len(l.outs)}
        o0     == 0 \in idxs
        o1     == 1 \in idxs
        hi     == {i \in idxs : i >= 2}
        nbytes == IF hi = {} THEN 0 ELSE ((SetMax(hi) - 2) \div 8) + 1
        field  == IF ~o0 /\ ~o1 THEN nbytes - 1 ELSE nbytes
        code   == field * 8 + (IF o1 THEN 4 ELSE 0) + (IF o0 THEN 2 ELSE 0) + (IF l.cb THEN 1 ELSE 0)
        bitmap == [b \in 1..nbytes |-> SumBits(idxs, 2 + (b - 1) * 8, 0)]
    IN  VLQ(l.version) \o VLQ(FromInt(l.height)) \o VLQ(FromInt(code)) \o bitmap
            \o Concat([i \in 1..Len(l.outs) |-> TxOutEnc(l.outs[i].amount, l.outs[i].script)])

RECURSIVE BitIdx(_, _, _)
BitIdx(byte, base, j) == IF j > 7 THEN << >>
                         ELSE (IF (byte \div (2 ^ j)) % 2 = 1 THEN <<base + j>> ELSE << >>) \o BitIdx(byte, base, j + 1)
RECURSIVE BitmapIdx(_, _, _)
BitmapIdx(bs, off, n) ==   \* n bitmap bytes from offset off
    Concat([b \in 1..n |-> BitIdx(bs[off + b], 2 + (b - 1) * 8, 0)])

RECURSIVE DecodeOuts(_, _, _, _)
DecodeOuts(bs, off, idxs, acc) ==
    IF Len(idxs) = 0 THEN [err |-> FALSE, acc |-> acc]
    ELSE LET t == DecodeTxOut(From(bs, off + 1))
         IN  IF t.err THEN [err |-> TRUE, acc |-> acc]
             ELSE DecodeOuts(bs, off + t.read, Tail(idxs),
                      Append(acc, [idx |-> idxs[1], amount |-> t.amount, script |-> t.script]))

\* deserializeUtxoEntryV0 over arbitrary bytes
DecodeLegacy(bs) ==
    LET v1 == DecVLQ(bs)
        o1 == v1.size
    IN  IF o1 >= Len(bs) THEN Err
        ELSE LET v2 == DecVLQ(From(bs, o1 + 1))
                 o2 == o1 + v2.size
             IN  IF o2 >= Len(bs) THEN Err
                 ELSE LET v3 == DecVLQ(From(bs, o2 + 1))
                          o3 == o2 + v3.size
                      IN  IF o3 >= Len(bs) THEN Err
                          ELSE LET code == v3.val
                                   b0   == Low(code) % 2 = 1
                                   b1   == (Low(code) \div 2) % 2 = 1
                                   b2   == (Low(code) \div 4) % 2 = 1
                                   fld  == DivMod(code, 8).q
                                   nb   == IF ~b1 /\ ~b2 THEN Inc(fld) ELSE fld
                               IN  IF Len(nb) > 3 \/ Len(bs) - o3 < ToInt(nb) THEN Err
                                   ELSE LET n    == ToInt(nb)
                                            idxs == (IF b1 THEN <<0>> ELSE << >>) \o (IF b2 THEN <<1>> ELSE << >>)
                                                        \o BitmapIdx(bs, o3, n)
                                            r    == DecodeOuts(bs, o3 + n, idxs, << >>)
                                        IN  IF r.err THEN Err
                                            ELSE [err |-> FALSE, cb |-> b0, h32 |-> ModPow2(v2.val, 32),
                                                  outs |-> r.acc]
=============================================================================
