---------------------------- MODULE RecordsCases ----------------------------
(***************************************************************************)
(* C15: the definitions of Records.tla evaluated by TLC on enumerated      *)
(* inputs.  One state per case: `case` is the input, `expect` what the     *)
(* format says about it (bytes, size, what the reference decoder returns   *)
(* for the encoding, for every proper prefix of it and for every listed    *)
(* mutation).  Cases have no successors.  The invariants are the laws the  *)
(* definitions must satisfy on every case: round trip, canonical length,   *)
(* order preservation, size = length, the documented examples, agreement   *)
(* of the digit-sequence arithmetic with TLC's native integers.  The       *)
(* binder feeds every case to the real btcd functions and compares with    *)
(* `expect`.                                                               *)
(*                                                                         *)
(* kinds                                                                   *)
(*  vlq       n                  bytes, size, decoder on prefixes          *)
(*  vlqdec    bytes              deserializeVLQ on arbitrary bytes         *)
(*  vlqrange  lo                 encodings of lo .. lo+256 (native ints)   *)
(*  amount    a                  compressed amount (unbounded and uint64)  *)
(*  camount   c                  decompressed amount                       *)
(*  amtrange  lo                 compressed lo .. lo+255 (native ints)     *)
(*  script    name, s            type, compressed bytes, size, back        *)
(*  cscript   bytes              stored compressed script -> script        *)
(*  csize     bytes              size a stored compressed script claims    *)
(*  txout     amount, script     compressed txout + truncations/mutations  *)
(*  utxo      u                  utxo entry value + key                    *)
(*  keypair   i, j               order of two outpoint keys                *)
(*  stxo      s                  one spend journal entry (+ legacy forms)  *)
(*  journal   stxos, counts      a block's journal entry                   *)
(*  best      b                  best chain state record                   *)
(*  row       r                  block index row and key                   *)
(*  legacy    l                  version-1 utxo entry (migration reader)   *)
(*  chain     scenario           blocks to build on a real chain; what the *)
(*                               database must hold afterwards             *)
(***************************************************************************)
EXTENDS RecordsDoc, TLC, Json

CONSTANTS Tier          \* "quick" or "thorough"

VARIABLES case, expect
vars == <<case, expect>>

Thorough == Tier = "thorough"
None == [none |-> TRUE]
SeqSet(s) == {s[i] : i \in 1..Len(s)}

Splice(enc, at, del, ins) == SubSeq(enc, 1, at) \o ins \o SubSeq(enc, at + del + 1, Len(enc))
\* decoder outcome on every proper prefix (lengths 0 .. Len-1); for encodings
\* longer than 300 bytes only the 41 shortest and the 40 longest prefixes
TruncPoints(n) == IF n <= 300 THEN [i \in 1..n |-> i - 1]
                  ELSE [i \in 1..81 |-> IF i <= 41 THEN i - 1 ELSE n - 82 + i]
Truncs(enc, D(_)) ==
    LET pts == TruncPoints(Len(enc))
    IN  [i \in 1..Len(pts) |-> [k |-> pts[i], out |-> D(SubSeq(enc, 1, pts[i]))]]
WithOut(enc, muts, D(_)) ==
    [i \in 1..Len(muts) |->
        [class |-> muts[i].class, at |-> muts[i].at, del |-> muts[i].del, ins |-> muts[i].ins,
         out |-> D(Splice(enc, muts[i].at, muts[i].del, muts[i].ins))]]

MaxU64   == Dec1(Two64)
MaxI64   == Dec1(Two63)
VMax     == VLQ(MaxU64)
Huge63   == VLQ(MulAdd(Two63, 1, 6))            \* 2^63 + 6
Overlong == [i \in 1..11 |-> 255] \o <<127>>    \* 12-byte VLQ: wraps the uint64

-----------------------------------------------------------------------------
(* VLQ *)

VLQValues ==
    LET pow  == {Pow2(j) : j \in 0..63} \cup {Dec1(Pow2(j)) : j \in 1..64}
                    \cup {Inc(Pow2(j)) : j \in 1..63}
        edge == UNION {{MinOfLen(k), Dec1(MinOfLen(k)), Inc(MinOfLen(k))} : k \in 2..10}
        pat  == {[i \in 1..l |-> 127] : l \in 1..9}
                    \cup {[i \in 1..l |-> IF i = l THEN 1 ELSE 0] : l \in 1..10}
                    \cup {[i \in 1..l |-> IF i % 2 = 1 THEN 127 ELSE 0] \o <<1>> : l \in {2, 4, 6, 8}}
                    \cup {[i \in 1..l |-> IF i % 2 = 1 THEN 0 ELSE 127] : l \in {2, 4, 6, 8}}
                    \cup {[i \in 1..l |-> IF i = p THEN 0 ELSE 127] \o <<1>> : l \in {3, 8}, p \in 1..3}
        low  == {FromInt(n) : n \in 0..(IF Thorough THEN 600 ELSE 300)}
        doc  == {DocVLQ[i].n : i \in 1..Len(DocVLQ)}
    IN  {v \in pow \cup edge \cup pat \cup low \cup doc : Fits64(v)}

VLQGroups == 0..7
VLQGroupOf(v) == (Len(v) + Low(v)) % 8

VLQExpect(n) ==
    LET b == VLQ(n)
    IN  [ bytes |-> b, size |-> SizeVLQ(n), dec |-> DecVLQ(b),
          truncs |-> Truncs(b, DecVLQ), ext |-> DecVLQ(b \o <<255, 0>>) ]

VLQLaws ==
    case.kind = "vlq" =>
        LET n == case.n
            b == expect.bytes
            k == Len(b)
        IN  /\ IsNat(n) /\ Fits64(n)
            /\ \A i \in 1..k : b[i] \in 0..255
            \* exactly the final byte has no continuation bit
            /\ \A i \in 1..(k - 1) : b[i] >= 128
            /\ b[k] < 128
            \* round trip, and trailing data is not consumed
            /\ expect.dec = [val |-> n, size |-> k]
            /\ expect.ext = [val |-> n, size |-> k]
            \* the size calculator is the length
            /\ expect.size = k
            \* canonical length: k bytes exactly for MinOfLen(k) <= n < MinOfLen(k+1)
            /\ k \in 1..10
            /\ Leq(MinOfLen(k), n)
            /\ Lt(n, MinOfLen(k + 1))
            \* a proper prefix is consumed entirely (never reads past the end)
            /\ \A j \in 1..k : expect.truncs[j].out.size = expect.truncs[j].k /\ expect.truncs[j].k = j - 1
            \* order: among encodings of the same length the bytewise order is the numeric
            \* order, and a one-byte encoding sorts before every longer one.  (It is NOT
            \* order preserving across longer lengths, whatever the comment on the utxo
            \* key format says: see OrderBreaks below.)
            /\ (Fits64(Inc(n)) /\ SizeVLQ(Inc(n)) = k => LexLt(b, VLQ(Inc(n))))
            /\ (Fits64(Inc(n)) /\ k = 1 => LexLt(b, VLQ(Inc(n))))
            /\ (Len(n) > 0 => LexLt(<<0>>, b))                  \* index 0 has the smallest key
            \* one encoding per number: re-encoding the decoded value gives the bytes
            /\ VLQ(expect.dec.val) = b

\* arbitrary byte strings offered to deserializeVLQ
VLQDecStrings ==
    LET vs == {MinOfLen(k) : k \in 1..10} \cup {MaxU64, FromInt(300), Two63}
    IN  {<< >>, <<128>>, <<255>>, <<255, 255>>, <<0, 0>>, <<127, 255>>, Overlong,
         [i \in 1..10 |-> 255], [i \in 1..10 |-> 255] \o <<127>>, [i \in 1..10 |-> 128] \o <<0>>,
         [i \in 1..20 |-> 129], [i \in 1..9 |-> 128] \o <<0>>, <<129>> \o [i \in 1..9 |-> 255] \o <<127>>}
        \cup {VLQ(v) \o <<g>> : v \in vs, g \in {0, 128, 255}}

VLQDecLaws ==
    case.kind = "vlqdec" =>
        /\ expect.size <= Len(case.bytes)
        /\ Fits64(expect.val) /\ IsNat(expect.val)
        \* a string that ends the quantity within 10 bytes and does not wrap is the
        \* canonical encoding of its value
        /\ (expect.size \in 1..Len(case.bytes) /\ case.bytes[expect.size] < 128
              /\ Fits64(DecVLQR(case.bytes, 1, << >>).val)
                => VLQ(expect.val) = SubSeq(case.bytes, 1, expect.size))

\* dense range on native integers: 257 consecutive numbers per case
RangeTop  == IF Thorough THEN 2 ^ 20 ELSE 2 ^ 17
RangeLows == {k * 256 : k \in 0..((RangeTop \div 256) - 1)}
           \cup {2113664 - 512 + k * 256 : k \in 0..3}      \* around the 3/4-byte boundary 2113664
VLQRangeExpect(lo) == [encs |-> [i \in 1..257 |-> VLQInt(lo + i - 1)]]
VLQRangeLaws ==
    case.kind = "vlqrange" =>
        \A i \in 1..257 :
            LET n == case.lo + i - 1
                b == expect.encs[i]
            IN  \* the digit recurrence agrees with native arithmetic
                /\ VLQ(FromInt(n)) = b
                /\ DecVLQ(b) = [val |-> FromInt(n), size |-> Len(b)]
                /\ SizeVLQ(FromInt(n)) = Len(b)
                /\ Len(b) = (IF n < 128 THEN 1 ELSE IF n < 16512 THEN 2 ELSE IF n < 2113664 THEN 3 ELSE 4)
                /\ (i < 257 /\ (Len(b) = Len(expect.encs[i + 1]) \/ Len(b) = 1) => LexLt(b, expect.encs[i + 1]))

-----------------------------------------------------------------------------
(* amounts *)

MaxSatoshi == Dec(<<2,1,0,0,0,0,0,0,0,0,0,0,0,0,0,0>>)
\* largest region where 9*a still fits 64 bits
OverflowEdge == Dec(<<2,0,4,9,6,3,8,2,3,0,4,1,2,1,7,2,3,9,5>>)

Mants == {<< >>, FromInt(1), FromInt(9), FromInt(10), FromInt(12), FromInt(99), FromInt(100),
          FromInt(12345), Dec(<<9,9,9,9,9,9,9,9,9>>), Dec(<<2,0,4,9,6,3,8,2,3,0,4,1,2,1,7,2,3>>)}
          \cup (IF Thorough THEN {FromInt(2), FromInt(90), FromInt(101), FromInt(999999), Dec(<<1,8,4,4,6,7,4,4,0,7>>)} ELSE {})

AmountValues ==
    LET cls  == {MulPow10(MulAdd(m, 10, d), z) : m \in Mants, d \in 1..9, z \in 0..12}
        tens == UNION {{MulPow10(<<1>>, k), Dec1(MulPow10(<<1>>, k)), Inc(MulPow10(<<1>>, k))} : k \in 1..19}
        edge == {<< >>, MaxSatoshi, Dec1(MaxSatoshi), Inc(MaxSatoshi), MaxI64, Two63, Inc(Two63), MaxU64, Dec1(MaxU64)}
                    \cup {MulAdd(OverflowEdge, 1, k) : k \in 0..24}
        low  == {FromInt(n) : n \in 0..(IF Thorough THEN 3000 ELSE 500)}
        doc  == {DocAmount[i].a : i \in 1..Len(DocAmount)}
    IN  {a \in cls \cup tens \cup edge \cup low \cup doc : Fits64(a)}

AmountGroups == 0..7
AmountGroupOf(a) == (Len(a) + Low(a)) % 8

AmountExpect(a) ==
    LET c == Compress(a)
    IN  [ c |-> c, fits |-> Fits64(c), coded |-> CompressCoded(a),
          back |-> DecompressCoded(CompressCoded(a)),
          zeros |-> IF Len(a) = 0 THEN 0 ELSE TrailingZeros(a, 9) ]

AmountLaws ==
    case.kind = "amount" =>
        LET a == case.a
            c == expect.c
        IN  /\ IsNat(c)
            \* the scheme is a bijection on the naturals
            /\ Decompress(c) = a
            /\ (Len(a) = 0) = (Len(c) = 0)
            \* the exponent is the residue of c - 1
            /\ (Len(a) > 0 => DivMod(Dec1(c), 10).r = expect.zeros)
            \* in 64-bit arithmetic the round trip holds exactly when the compressed value fits
            /\ (expect.fits => expect.coded = c /\ expect.back = a)
            \* every amount of the monetary range fits
            /\ (Leq(a, MaxSatoshi) => expect.fits)

CAmountValues ==
    {c \in {FromInt(n) : n \in 0..(IF Thorough THEN 3000 ELSE 500)}
           \cup UNION {{MulPow10(<<1>>, k), Dec1(MulPow10(<<1>>, k)), Inc(MulPow10(<<1>>, k))} : k \in 1..19}
           \cup {MaxU64, Dec1(MaxU64), MaxI64, Two63}
           \cup {MulAdd(MulPow10(<<1>>, k), 1, e) : k \in {3, 9, 12, 18}, e \in 0..10}
           \cup {DocAmount[i].c : i \in 1..Len(DocAmount)} : Fits64(c)}

CAmountExpect(c) ==
    LET a == Decompress(c) IN [a |-> a, fits |-> Fits64(a), coded |-> DecompressCoded(c)]
CAmountLaws ==
    case.kind = "camount" =>
        /\ Compress(expect.a) = case.c
        /\ (expect.fits => expect.coded = expect.a)

AmtRangeLows == {k * 256 : k \in 0..((RangeTop \div 256) - 1)}
AmtRangeExpect(lo) == [cs |-> [i \in 1..256 |-> CompressInt(lo + i - 1)]]
AmtRangeLaws ==
    case.kind = "amtrange" =>
        \A i \in 1..256 :
            LET a == case.lo + i - 1
            IN  /\ Compress(FromInt(a)) = FromInt(expect.cs[i])
                /\ Decompress(FromInt(expect.cs[i])) = FromInt(a)

DocNumberLaws ==
    /\ \A i \in 1..Len(DocVLQ) : VLQ(DocVLQ[i].n) = DocVLQ[i].bytes
    /\ \A i \in 1..Len(DocAmount) : Compress(DocAmount[i].a) = DocAmount[i].c

-----------------------------------------------------------------------------
(* scripts *)

H20(seed) == [i \in 1..20 |-> (seed * 37 + i * 101) % 256]
H32(seed) == [i \in 1..32 |-> (seed * 59 + i * 73) % 256]
\* OP_1 followed by OP_NOPs: spendable by an empty signature script up to 202 bytes
Filler(l) == [i \in 1..l |-> IF i = 1 THEN 81 ELSE 97]
SetAt(s, i, v) == [s EXCEPT ![i] = v]
Pfx(p) == IF p.odd THEN 3 ELSE 2
K(i) == Points[i]

\* scripts the binder can spend on a real chain (it holds the keys of Points[3..])
SpendableScripts == <<
    [name |-> "pkh",    s |-> P2PKH(K(3).hc)],
    [name |-> "pkh-u",  s |-> P2PKH(K(4).hu)],
    [name |-> "sh",     s |-> P2SH(RedeemHash)],
    [name |-> "pkc",    s |-> P2PKC(Pfx(K(3)), K(3).x)],
    [name |-> "pkc-b",  s |-> P2PKC(Pfx(K(4)), K(4).x)],
    [name |-> "pku",    s |-> P2PKU(4, K(5).x, K(5).y)],
    [name |-> "pku-b",  s |-> P2PKU(4, K(6).x, K(6).y)],
    [name |-> "true",   s |-> <<81>>],
    [name |-> "nop121", s |-> Filler(121)],
    [name |-> "nop122", s |-> Filler(122)] >>

\* scripts nobody needs to spend
OtherScripts == <<
    [name |-> "pkc-neg",   s |-> P2PKC(5 - Pfx(K(3)), K(3).x)],
    [name |-> "pku-neg",   s |-> P2PKU(4, K(5).x, K(5).ny)],
    [name |-> "pku-neg-b", s |-> P2PKU(4, K(6).x, K(6).ny)],
    [name |-> "pku-doc1",  s |-> P2PKU(4, K(1).x, K(1).y)],
    [name |-> "pku-doc2",  s |-> P2PKU(4, K(2).x, K(2).y)],
    [name |-> "pkc-off",   s |-> P2PKC(2, OffX[1])],
    [name |-> "pkc-off3",  s |-> P2PKC(3, OffX[2])],
    [name |-> "pku-bady",  s |-> P2PKU(4, K(5).x, K(5).bady)],
    [name |-> "pku-offx",  s |-> P2PKU(4, OffX[1], K(5).y)],
    [name |-> "hybrid",    s |-> P2PKU(IF K(5).odd THEN 7 ELSE 6, K(5).x, K(5).y)],
    [name |-> "opreturn",  s |-> <<106, 20>> \o H20(7)],
    [name |-> "empty",     s |-> << >>],
    [name |-> "p2wpkh",    s |-> <<0, 20>> \o H20(8)],
    [name |-> "p2tr",      s |-> <<81, 32>> \o H32(9)] >>

NearMissScripts == <<
    [name |-> "pkh-short",   s |-> SubSeq(P2PKH(H20(1)), 1, 24)],
    [name |-> "pkh-long",    s |-> P2PKH(H20(1)) \o <<97>>],
    [name |-> "pkh-op1",     s |-> SetAt(P2PKH(H20(1)), 1, 117)],
    [name |-> "pkh-op2",     s |-> SetAt(P2PKH(H20(1)), 2, 170)],
    [name |-> "pkh-op3",     s |-> SetAt(P2PKH(H20(1)), 3, 19)],
    [name |-> "pkh-op24",    s |-> SetAt(P2PKH(H20(1)), 24, 135)],
    [name |-> "pkh-op25",    s |-> SetAt(P2PKH(H20(1)), 25, 173)],
    [name |-> "sh-short",    s |-> SubSeq(P2SH(H20(2)), 1, 22)],
    [name |-> "sh-long",     s |-> P2SH(H20(2)) \o <<135>>],
    [name |-> "sh-op1",      s |-> SetAt(P2SH(H20(2)), 1, 168)],
    [name |-> "sh-op2",      s |-> SetAt(P2SH(H20(2)), 2, 21)],
    [name |-> "sh-op23",     s |-> SetAt(P2SH(H20(2)), 23, 136)],
    [name |-> "pkc-push",    s |-> SetAt(P2PKC(Pfx(K(3)), K(3).x), 1, 32)],
    [name |-> "pkc-end",     s |-> SetAt(P2PKC(Pfx(K(3)), K(3).x), 35, 173)],
    [name |-> "pkc-pfx4",    s |-> P2PKC(4, K(3).x)],
    [name |-> "pkc-long",    s |-> P2PKC(Pfx(K(3)), K(3).x) \o <<97>>],
    [name |-> "pku-push",    s |-> SetAt(P2PKU(4, K(5).x, K(5).y), 1, 64)],
    [name |-> "pku-end",     s |-> SetAt(P2PKU(4, K(5).x, K(5).y), 67, 173)],
    [name |-> "pku-pfx2",    s |-> P2PKU(2, K(5).x, K(5).y)],
    [name |-> "pku-short",   s |-> SubSeq(P2PKU(4, K(5).x, K(5).y), 1, 66)],
    [name |-> "len1-00",     s |-> <<0>>],
    [name |-> "len1-05",     s |-> <<5>>],
    [name |-> "len120",      s |-> Filler(120)],
    [name |-> "len127",      s |-> Filler(127)] >>
    \o (IF Thorough THEN << [name |-> "len16505", s |-> Filler(16505)],
                            [name |-> "len16506", s |-> Filler(16506)],
                            [name |-> "len10000", s |-> Filler(10000)] >> ELSE << >>)

AllScripts == SpendableScripts \o OtherScripts \o NearMissScripts
ScriptByName(n) == (CHOOSE r \in SeqSet(AllScripts) : r.name = n).s

\* the class the decision table must put each named script in
WantType(name, s) ==
    IF name \in {"pkh", "pkh-u"} THEN 0
    ELSE IF name = "sh" THEN 1
    ELSE IF name \in {"pkc", "pkc-b", "pkc-neg"} THEN s[2]
    ELSE IF name \in {"pku", "pku-b", "pku-neg", "pku-neg-b", "pku-doc1", "pku-doc2"} THEN 4 + (s[66] % 2)
    ELSE 6 + Len(s)

ScriptExpect(s) ==
    LET b == CompressScript(s)
    IN  [ type |-> ScriptType(s), bytes |-> b, size |-> ScriptSize(s),
          sizeof |-> ScriptSizeOf(b), back |-> DecompressScript(b) ]

ScriptLaws ==
    case.kind = "script" =>
        LET s == case.s
            b == expect.bytes
        IN  /\ expect.type = WantType(case.name, s)
            /\ expect.size = Len(b)
            /\ ~expect.sizeof.big /\ expect.sizeof.n = Len(b)
            /\ expect.back = s                          \* lossless
            /\ (expect.type < 6 => b[1] = expect.type /\ Len(b) = (IF expect.type < 2 THEN 21 ELSE 33))
            /\ (expect.type >= 6 => b = VLQ(FromInt(Len(s) + 6)) \o s)
            \* the documented keys have the documented types
            /\ (case.name = "pku-doc1" => expect.type = 4)
            /\ (case.name = "pku-doc2" => expect.type = 5)

\* stored compressed scripts that no encoder produces
CScriptStrings ==
    { <<4>> \o OffX[1], <<5>> \o OffX[2], <<2>> \o OffX[1], <<3>> \o OffX[2],
      <<4>> \o K(5).x, <<5>> \o K(5).x, <<4>> \o K(1).x, <<5>> \o K(2).x, <<5>> \o K(1).x,
      <<6>>, <<7, 0>>, <<0>> \o H20(3), <<1>> \o H20(4) }
CScriptExpect(b) == [sizeof |-> ScriptSizeOf(b), script |-> DecompressScript(b)]
CScriptLaws ==
    case.kind = "cscript" =>
        /\ ~expect.sizeof.big /\ expect.sizeof.n = Len(case.bytes)
        \* whatever decompresses to a non-empty script compresses back to the same bytes,
        \* except a stored compressed key whose x has no point
        /\ (Len(expect.script) > 0 /\ ~(case.bytes[1] \in 2..3 /\ ~OnCurveX(SubSeq(case.bytes, 2, 33)))
               => CompressScript(expect.script) = case.bytes)

\* size fields alone, including fields that claim more than is there
CSizeStrings ==
    { << >>, <<0>>, <<1>>, <<2>>, <<5>>, <<6>>, <<7>>, <<7, 0>>, <<8, 0>>, <<128>>, <<255, 255>>,
      Huge63, VMax, VLQ(Two31), VLQ(Two63), VLQ(MaxI64), VLQ(Two32), Overlong,
      Huge63 \o H20(1), VMax \o H20(1), VLQ(FromInt(46)) \o H20(3), VLQ(FromInt(26)) \o H20(3),
      VLQ(FromInt(27)) \o H20(3), VLQ(FromInt(128)) \o Filler(121), VLQ(FromInt(128)) \o Filler(122),
      VLQ(FromInt(2097157)) \o H20(5), VLQ(FromInt(2097158)) \o H20(5) }
CSizeLaws ==
    case.kind = "csize" =>
        \* whatever the field holds, the answer never wraps or goes negative: a
        \* special type, the claimed size when the script fits the string, and
        \* "one more than there is" otherwise
        /\ expect.n >= 0
        /\ (expect.n \in {21, 33} \/ expect.n <= Len(case.bytes) + 10)
        /\ (expect.big => expect.n = Len(case.bytes) + 1)

-----------------------------------------------------------------------------
(* compressed txouts *)

TxOutMuts(enc, base, amount, script) ==
    LET la == SizeVLQ(CompressCoded(amount))
        t  == ScriptType(script)
        lf == IF t < 6 THEN 1 ELSE SizeVLQ(FromInt(t))
        at == base + la
    IN  << [class |-> "scriptsize-2^63",  at |-> at, del |-> lf, ins |-> Huge63],
           [class |-> "scriptsize-max",   at |-> at, del |-> lf, ins |-> VMax],
           [class |-> "scriptsize-2^31",  at |-> at, del |-> lf, ins |-> VLQ(Two31)],
           [class |-> "scriptsize-plus",  at |-> at, del |-> lf, ins |-> VLQ(FromInt(IF t < 6 THEN 46 ELSE t + 1))],
           [class |-> IF t < 6 THEN "type-swap" ELSE "scriptsize-minus", at |-> at, del |-> lf,
            ins |-> IF t < 6 THEN <<IF t % 2 = 0 THEN t + 1 ELSE t - 1>> ELSE VLQ(FromInt(t - 1))],
           [class |-> "type4-offcurve",   at |-> at, del |-> Len(enc) - at, ins |-> <<4>> \o OffX[1]],
           [class |-> "type5-offcurve",   at |-> at, del |-> Len(enc) - at, ins |-> <<5>> \o OffX[2]],
           [class |-> "amount-max",       at |-> base, del |-> la, ins |-> VMax],
           [class |-> "amount-overlong",  at |-> base, del |-> la, ins |-> Overlong],
           [class |-> "append-00",        at |-> Len(enc), del |-> 0, ins |-> <<0>>],
           [class |-> "append-ffff",      at |-> Len(enc), del |-> 0, ins |-> <<255, 255>>] >>

TxAmounts == {<< >>, <<1>>, FromInt(546), Dec(<<5,0,0,0,0,0,0,0,0,0>>), Dec(<<1,2,3,4,5,6,7,8>>),
              MaxSatoshi, MaxI64, Dec(<<3,6,6,8,7,5,6,5,9>>), Dec(<<1,0,0,0,0,0,0,0,0>>)}
\* a uint64 amount whose compressed value does not fit (only the raw txout functions take it)
WideAmount == Dec(<<3,0,0,0,0,0,0,0,0,0,0,0,0,0,0,0,0,0,1>>)

TxOutExpect(amount, script) ==
    LET b == TxOutEnc(amount, script)
    IN  [ bytes |-> b, size |-> TxOutSize(amount, script), dec |-> DecodeTxOut(b),
          fits |-> Fits64(Compress(amount)),
          truncs |-> Truncs(b, DecodeTxOut),
          bad |-> WithOut(b, TxOutMuts(b, 0, amount, script), DecodeTxOut) ]

\* Lemma shared by all records ending in a txout: cutting anywhere is an error
\* unless what is left happens to be a complete shorter record.
TxOutLaws ==
    case.kind = "txout" =>
        LET b == expect.bytes
        IN  /\ expect.size = Len(b)
            /\ ~expect.dec.err /\ expect.dec.read = Len(b)
            /\ expect.dec.script = case.script
            /\ (expect.fits => expect.dec.amount = case.amount)
            \* appended data is not consumed
            /\ \A i \in 1..Len(expect.bad) :
                  expect.bad[i].class \in {"append-00", "append-ffff"} =>
                      /\ ~expect.bad[i].out.err
                      /\ expect.bad[i].out.read = Len(b)
                      /\ expect.bad[i].out.script = case.script
            \* a size field beyond the data is an error, never a read
            /\ \A i \in 1..Len(expect.bad) :
                  expect.bad[i].class \in {"scriptsize-2^63", "scriptsize-max", "scriptsize-2^31", "scriptsize-plus"}
                      => expect.bad[i].out.err
            \* a value never claims more bytes than it was given
            /\ \A i \in 1..Len(expect.truncs) :
                  ~expect.truncs[i].out.err => expect.truncs[i].out.read <= expect.truncs[i].k

-----------------------------------------------------------------------------
(* utxo entries, outpoint keys *)

HeightClasses == {0, 1, 63, 64, 8255, 8256, 100024, 113931, 338156, 1056831, 1056832, 2147483647}
                 \cup (IF Thorough THEN {9, 127, 128, 840000, 1073741823, 1073741824} ELSE {})
EntryAmounts == {<< >>, Dec(<<5,0,0,0,0,0,0,0,0,0>>), MaxSatoshi, MaxI64}
                \cup (IF Thorough THEN {<<1>>, Dec(<<1,5,0,0,0,0,0,0>>)} ELSE {})
EntryScriptNames == {"pkh", "sh", "pkc", "pku", "pku-neg", "pku-doc2", "pkc-off",
                     "pku-bady", "true", "empty", "nop121", "nop122", "p2tr"}
                    \cup (IF Thorough THEN {r.name : r \in {x \in SeqSet(AllScripts) : Len(x.s) < 300}} ELSE {})

CodeMuts(codeLen) ==
    << [class |-> "code-max",      at |-> 0, del |-> codeLen, ins |-> VMax],
       [class |-> "code-2^33",     at |-> 0, del |-> codeLen, ins |-> VLQ(MulAdd(Pow2(33), 1, 2))],
       [class |-> "code-negative", at |-> 0, del |-> codeLen, ins |-> VLQ(Two32)],
       [class |-> "code-overlong", at |-> 0, del |-> codeLen, ins |-> Overlong] >>

UtxoExpect(u) ==
    LET b  == UtxoEnc(u)
        cl == SizeVLQ(HeaderCode(u.height, u.cb))
    IN  [ bytes |-> b, size |-> UtxoSize(u), dec |-> DecodeUtxo(b),
          fits |-> Fits64(Compress(u.amount)),
          truncs |-> Truncs(b, DecodeUtxo),
          bad |-> WithOut(b, CodeMuts(cl) \o TxOutMuts(b, cl, u.amount, u.script), DecodeUtxo) ]

UtxoLaws ==
    case.kind = "utxo" =>
        LET u == case.u
            b == expect.bytes
        IN  /\ expect.size = Len(b)
            /\ ~expect.dec.err /\ expect.dec.cb = u.cb /\ expect.dec.h32 = FromInt(u.height)
            /\ expect.dec.script = u.script
            /\ (expect.fits => expect.dec.amount = u.amount)
            \* the record starts with the header code and continues with the txout
            /\ (expect.fits =>
                  b = VLQ(HeaderCode(u.height, u.cb)) \o VLQ(Compress(u.amount)) \o CompressScript(u.script))

DocUtxoLaws == \A i \in 1..Len(DocUtxo) : UtxoEnc(DocUtxo[i].u) = DocUtxo[i].bytes

\* outpoint keys sort like (hash, index)
IndexClasses == <<0, 1, 2, 126, 127, 128, 129, 255, 256, 16510, 16511, 16512, 16513, 65535, 2113663, 2113664,
                  270549119, 270549120, 2147483647>>
KeyIndex(i) == IF i <= Len(IndexClasses) THEN FromInt(IndexClasses[i])
               ELSE IF i = Len(IndexClasses) + 1 THEN Two31 ELSE Dec1(Two32)
NIndex == Len(IndexClasses) + 2
KeyPairExpect(i, j) ==
    [ a |-> KeyIndex(i), b |-> KeyIndex(j), ka |-> VLQ(KeyIndex(i)), kb |-> VLQ(KeyIndex(j)),
      less |-> LexLt(H32(1) \o VLQ(KeyIndex(i)), H32(1) \o VLQ(KeyIndex(j))) ]
KeyPairLaws ==
    case.kind = "keypair" =>
        ((Len(expect.ka) = Len(expect.kb) \/ Len(expect.ka) = 1 \/ Len(expect.kb) = 1)
            => (expect.less = Lt(expect.a, expect.b)))
\* the documented claim "byte-wise comparisons will produce them in order" fails
\* from the first three-byte index on: 16511 -> ff 7f, 16512 -> 80 80 00
OrderBreaks == LexLt(VLQ(FromInt(16512)), VLQ(FromInt(16511))) /\ LexLt(VLQ(FromInt(16512)), VLQ(FromInt(256)))

-----------------------------------------------------------------------------
(* spend journal *)

LegacyVersions == << <<1>>, <<2>>, FromInt(127), FromInt(128), Dec1(Two32) >>

StxoExpect(s) ==
    LET b  == StxoEnc(s)
        cl == SizeVLQ(HeaderCode(s.height, s.cb))
        rl == IF s.height > 0 THEN 1 ELSE 0
    IN  [ bytes |-> b, size |-> StxoSize(s), dec |-> DecodeStxo(b),
          fits |-> Fits64(Compress(s.amount)),
          truncs |-> Truncs(b, DecodeStxo),
          bad |-> WithOut(b, CodeMuts(cl) \o TxOutMuts(b, cl + rl, s.amount, s.script), DecodeStxo),
          \* the same output as the version-1 journal wrote it (reserved = tx version)
          legacy |-> [i \in 1..Len(LegacyVersions) |->
                        [version |-> LegacyVersions[i], bytes |-> StxoEncV(s, LegacyVersions[i]),
                         dec |-> DecodeStxo(StxoEncV(s, LegacyVersions[i]))]] ]

StxoLaws ==
    case.kind = "stxo" =>
        LET s == case.s
            b == expect.bytes
            Same(d, n) == /\ ~d.err /\ d.cb = s.cb /\ d.h32 = FromInt(s.height) /\ d.script = s.script
                          /\ (expect.fits => d.amount = s.amount) /\ d.read = n
        IN  /\ expect.size = Len(b)
            /\ Same(expect.dec, Len(b))
            /\ (s.height = 0) = (Len(b) = Len(UtxoEnc(s)))        \* no reserved byte exactly for height 0
            /\ \A i \in 1..Len(expect.legacy) :
                  Same(expect.legacy[i].dec, Len(expect.legacy[i].bytes))

StxoPool == <<
    [height |-> 9,      cb |-> TRUE,  amount |-> Dec(<<5,0,0,0,0,0,0,0,0,0>>), script |-> ScriptByName("pku-doc2")],
    [height |-> 100024, cb |-> FALSE, amount |-> Dec(<<1,3,7,6,1,0,0,0,0,0,0>>), script |-> ScriptByName("pkh")],
    [height |-> 0,      cb |-> FALSE, amount |-> Dec(<<3,4,4,0,5,0,0,0,0,0,0>>), script |-> ScriptByName("sh")],
    [height |-> 64,     cb |-> TRUE,  amount |-> <<1>>, script |-> ScriptByName("true")],
    [height |-> 0,      cb |-> TRUE,  amount |-> << >>, script |-> ScriptByName("empty")],
    [height |-> 2147483647, cb |-> FALSE, amount |-> MaxSatoshi, script |-> ScriptByName("nop122")],
    [height |-> 1,      cb |-> FALSE, amount |-> FromInt(546), script |-> ScriptByName("pkc")] >>

\* transaction shapes: inputs per transaction, <= 3 transactions x <= 2 inputs (and input-less ones)
Shapes == {<< >>} \cup {<<a>> : a \in 0..2} \cup {<<a, b>> : a \in 0..2, b \in 0..2}
              \cup {<<a, b, c>> : a \in 1..2, b \in 0..2, c \in 1..2}
StxosFor(counts, rot) == [k \in 1..SumSeq(counts) |-> StxoPool[((k + rot - 1) % Len(StxoPool)) + 1]]
PlusOne(counts)  == counts \o <<1>>
MinusOne(counts) == IF SumSeq(counts) = 0 THEN counts
                    ELSE IF counts[Len(counts)] > 0 THEN [counts EXCEPT ![Len(counts)] = @ - 1]
                    ELSE SubSeq(counts, 1, Len(counts) - 1)

JournalExpect(stxos, counts) ==
    LET b == JournalEnc(stxos)
        D(x) == DecodeJournal(x, counts)
    IN  [ bytes |-> b, size |-> JournalSize(stxos), dec |-> D(b),
          truncs |-> Truncs(b, D),
          shapes |-> << [class |-> "one-more-input",  counts |-> PlusOne(counts),  out |-> DecodeJournal(b, PlusOne(counts))],
                        [class |-> "one-input-fewer", counts |-> MinusOne(counts), out |-> DecodeJournal(b, MinusOne(counts))],
                        [class |-> "no-inputs",       counts |-> << >>,            out |-> DecodeJournal(b, << >>)] >>,
          bad |-> WithOut(b, << [class |-> "append-00", at |-> Len(b), del |-> 0, ins |-> <<0>>],
                                [class |-> "first-code-max", at |-> 0, del |-> (IF Len(b) = 0 THEN 0 ELSE DecVLQ(b).size), ins |-> VMax],
                                [class |-> "prepend-80", at |-> 0, del |-> 0, ins |-> <<128>>] >>, D),
          legacy |-> [i \in 1..2 |->
                        LET v == << <<2>>, FromInt(128) >>[i]
                        IN  [version |-> v, bytes |-> JournalEncV(stxos, v),
                             dec |-> DecodeJournal(JournalEncV(stxos, v), counts)]] ]

StxoView(s) == [cb |-> s.cb, h32 |-> FromInt(s.height), amount |-> s.amount, script |-> s.script]
JournalLaws ==
    case.kind = "journal" =>
        LET b == expect.bytes
            n == Len(case.stxos)
            views == [k \in 1..n |-> StxoView(case.stxos[k])]
        IN  /\ expect.size = Len(b)
            /\ expect.dec = [err |-> FALSE, stxos |-> views]
            \* reverse order: the bytes start with the LAST spent output
            /\ (n > 0 => SubSeq(b, 1, Len(StxoEnc(case.stxos[n]))) = StxoEnc(case.stxos[n]))
            /\ (n = 0) = (Len(b) = 0)
            \* a block claiming one more input than the entry holds is an error
            /\ expect.shapes[1].out.err
            /\ \A i \in 1..Len(expect.legacy) : expect.legacy[i].dec = [err |-> FALSE, stxos |-> views]

DocJournalLaws == \A i \in 1..Len(DocJournal) : JournalEnc(DocJournal[i].stxos) = DocJournal[i].bytes

-----------------------------------------------------------------------------
(* best chain state *)

BestWorks == {<< >>, <<1>>, <<2, 0, 2>>, <<255>>, [i \in 1..32 |-> 255], <<1>> \o [i \in 1..32 |-> 0],
              <<1, 0, 1, 0, 1>>}
BestHeights == {<< >>, <<1>>, FromInt(255), FromInt(256), FromInt(840000), Dec1(Two31), Two31, Dec1(Two32)}
BestTxns == {<< >>, <<1>>, FromInt(65536), Dec1(Two32), Two32, MaxI64, Two63, MaxU64}
BestHashes == {H32(1), [i \in 1..32 |-> 0], [i \in 1..32 |-> 255]}

BestMuts(b) ==
    << [class |-> "worklen-plus1",  at |-> 44, del |-> 4, ins |-> ToLE(FromInt(Len(b.work) + 1), 4)],
       [class |-> "worklen-max",    at |-> 44, del |-> 4, ins |-> <<255, 255, 255, 255>>],
       [class |-> "worklen-2^31",   at |-> 44, del |-> 4, ins |-> <<0, 0, 0, 128>>],
       [class |-> "worklen-zero",   at |-> 44, del |-> 4, ins |-> <<0, 0, 0, 0>>],
       [class |-> "append-00",      at |-> 48 + Len(b.work), del |-> 0, ins |-> <<0>>],
       [class |-> "work-leading-zero", at |-> 44, del |-> 4, ins |-> ToLE(FromInt(Len(b.work) + 1), 4) \o <<0>>] >>

BestExpect(b) ==
    LET e == BestEnc(b)
    IN  [ bytes |-> e, dec |-> DecodeBest(e), truncs |-> Truncs(e, DecodeBest),
          bad |-> WithOut(e, BestMuts(b), DecodeBest) ]

BestLaws ==
    case.kind = "best" =>
        LET b == case.b
            e == expect.bytes
        IN  /\ Len(e) = 48 + Len(b.work)
            /\ expect.dec = [err |-> FALSE, hash |-> b.hash, height |-> b.height, txns |-> b.txns, work |-> b.work]
            /\ \A i \in 1..Len(expect.truncs) : expect.truncs[i].out.err     \* every truncation is detected
            /\ expect.bad[1].out.err /\ expect.bad[2].out.err /\ expect.bad[3].out.err
            /\ expect.bad[6].out = expect.dec                     \* a leading zero byte is the same number

-----------------------------------------------------------------------------
(* block index rows *)

RowVersions == {<<1>>, Pow2(29), MulAdd(Pow2(29), 1, 4), Dec1(Two32), Two31}
RowTimes    == {Dec(<<1,2,3,1,0,0,6,5,0,5>>), Dec1(Two32), << >>}
RowBits     == {Dec(<<4,8,6,6,0,4,7,9,9>>), Dec(<<5,4,5,2,5,9,5,1,9>>)}
RowNonces   == {<< >>, Dec(<<2,0,8,3,2,3,6,8,9,3>>), Dec1(Two32)}
RowStatuses == {0, 1, 3, 5, 9, 17, 19, 21, 128, 255}
RowHeights  == {<< >>, <<1>>, FromInt(256), FromInt(840000), Dec1(Two31)}

RowExpect(r) ==
    LET e == RowEnc(r)
    IN  [ bytes |-> e, key |-> RowKey(r.hash, r.height), dec |-> DecodeRow(e),
          truncs |-> Truncs(e, DecodeRow),
          bad |-> WithOut(e, << [class |-> "append-00", at |-> 81, del |-> 0, ins |-> <<0, 7>>] >>, DecodeRow) ]

RowLaws ==
    case.kind = "row" =>
        /\ Len(expect.bytes) = 81 /\ Len(expect.key) = 36
        /\ expect.dec = [err |-> FALSE, header |-> case.r.header, status |-> case.r.status]
        /\ \A i \in 1..81 : expect.truncs[i].out.err /\ expect.truncs[i].k = i - 1
        /\ expect.bad[1].out = expect.dec
        \* big-endian height first: rows sort by height
        /\ SubSeq(expect.key, 1, 4) = ToBE(case.r.height, 4)

-----------------------------------------------------------------------------
(* legacy utxo entries *)

LegacyIdxSets == {<<0>>, <<1>>, <<0, 1>>, <<2>>, <<0, 2>>, <<1, 3>>, <<22>>, <<9>>, <<10>>, <<2, 9, 10>>,
                  <<0, 1, 2, 3, 4, 5, 6, 7, 8, 9>>, <<0, 17>>, <<130>>}
                 \cup (IF Thorough THEN {<<1, 2>>, <<17, 18>>, <<0, 1, 25>>, <<3, 4, 5, 6>>, <<1000>>} ELSE {})
LegacyOuts(idxs, rot) ==
    [k \in 1..Len(idxs) |->
        [idx |-> idxs[k],
         amount |-> (<< Dec(<<5,0,0,0,0,0,0,0,0,0>>), Dec(<<2,0,0,0,0,0,0,0>>), <<1>>, << >>, FromInt(546) >>)[((k + rot) % 5) + 1],
         script |-> AllScripts[((k * 3 + rot * 5) % (Len(SpendableScripts) + Len(OtherScripts))) + 1].s]]

LegacyMuts(e, l) ==
    LET l1 == SizeVLQ(l.version)
        l2 == SizeVLQ(FromInt(l.height))
        c  == DecVLQ(From(e, l1 + l2 + 1))
        ls == l.outs[Len(l.outs)].script
        lt == ScriptType(ls)
        lf == IF lt < 6 THEN 1 ELSE SizeVLQ(FromInt(lt))
    IN  << [class |-> "code-max",    at |-> l1 + l2, del |-> c.size, ins |-> VMax],
           [class |-> "code-bitmap-plus1", at |-> l1 + l2, del |-> c.size, ins |-> VLQ(MulAdd(c.val, 1, 8))],
           [class |-> "code-bitmap-huge", at |-> l1 + l2, del |-> c.size, ins |-> VLQ(MulAdd(Pow2(40), 1, Low(c.val) % 8))],
           [class |-> "version-overlong", at |-> 0, del |-> l1, ins |-> Overlong],
           [class |-> "height-max",  at |-> l1, del |-> l2, ins |-> VMax],
           [class |-> "append-00",   at |-> Len(e), del |-> 0, ins |-> <<0>>],
           [class |-> "scriptsize-2^63", at |-> Len(e) - Len(CompressScript(ls)), del |-> lf, ins |-> Huge63] >>

LegacyExpect(l) ==
    LET e == LegacyEnc(l)
    IN  [ bytes |-> e, dec |-> DecodeLegacy(e), truncs |-> Truncs(e, DecodeLegacy),
          bad |-> WithOut(e, LegacyMuts(e, l), DecodeLegacy) ]

LegacyLaws ==
    case.kind = "legacy" =>
        /\ expect.dec = [err |-> FALSE, cb |-> case.l.cb, h32 |-> FromInt(case.l.height), outs |-> case.l.outs]
        \* what the migration writes for each output is the current utxo entry of that output
        /\ \A k \in 1..Len(case.l.outs) :
              LET o == case.l.outs[k]
                  u == [height |-> case.l.height, cb |-> case.l.cb, amount |-> o.amount, script |-> o.script]
              IN  DecodeUtxo(UtxoEnc(u)) = [err |-> FALSE, cb |-> u.cb, h32 |-> FromInt(u.height),
                                            amount |-> o.amount, script |-> o.script]

DocLegacyLaws == \A i \in 1..Len(DocLegacy) : LegacyEnc(DocLegacy[i].l) = DocLegacy[i].bytes

-----------------------------------------------------------------------------
(* real chain scenarios.  Blocks 1 .. ha-1 carry only a coinbase paying the *)
(* one-byte script OP_1; block ha holds a coinbase paying `cba` and one     *)
(* transaction T spending the coinbase of block 1 into `outs`; block ha+1  *)
(* holds a coinbase and the transactions `spends`, each a list of          *)
(* references (0 = coinbase of block ha, i = output i-1 of T).  Then the   *)
(* utxo cache is flushed and the database reopened.  Outputs that can never *)
(* be spent (script starts with OP_RETURN, or is longer than the 10000     *)
(* byte script limit, or does not parse; every script used here parses)    *)
(* are not part of the utxo set.  The tip's index row carries the status   *)
(* bits data-stored (1), valid (2) and header-stored (16).                 *)

Subsidy == Dec(<<5,0,0,0,0,0,0,0,0,0>>)
Unspendable(s) == (Len(s) > 0 /\ s[1] = 106) \/ Len(s) > 10000
StatusDataStored == 1   StatusValid == 2   StatusValidateFailed == 4
StatusInvalidAncestor == 8   StatusHeaderStored == 16
ChainAmounts == << << >>, <<1>>, FromInt(546), FromInt(1000), Dec(<<1,2,3,4,5,6,7,8>>), Dec(<<1,0,0,0,0,0,0,0,0>>),
                   Dec(<<9,9,9,9,9,9,9,9,9>>), Dec(<<1,5,0,0,0,0,0,0,0,0>>) >>
ChainOther == <<"pkc-off", "pku-bady", "hybrid", "pkc-neg", "pku-neg", "opreturn", "empty", "p2tr", "pku-doc1">>
SpendShapes == << << <<1>> >>, << <<1, 2>> >>, << <<1>>, <<2>> >>, << <<2, 1>>, <<0>> >>,
                  << <<0, 3>>, <<1>>, <<4, 2>> >>, << >>, << <<3>>, <<1, 2>>, <<0, 4>> >>,
                  << <<4>>, <<3>>, <<2>> >>, << <<0>> >> >>
ChainHeights == IF Thorough THEN <<3, 64, 63, 3, 5, 3>> ELSE <<3, 64, 3, 3, 3, 3, 3>>
NChain == IF Thorough THEN 60 ELSE 14

ChainCase(r) ==
    LET ns == Len(SpendableScripts)
    IN  [ id |-> r,
          ha |-> ChainHeights[(r % Len(ChainHeights)) + 1],
          cba |-> SpendableScripts[((r * 5) % ns) + 1].name,
          outs |-> [i \in 1..6 |->
                      [amount |-> ChainAmounts[((i + r) % Len(ChainAmounts)) + 1],
                       sname |-> IF i <= 4 THEN SpendableScripts[((i + r * 3) % ns) + 1].name
                                 ELSE ChainOther[((i + r) % Len(ChainOther)) + 1]]],
          spends |-> SpendShapes[(r % Len(SpendShapes)) + 1] ]

ChainCoin(c, ref) ==
    IF ref = 0 THEN [height |-> c.ha, cb |-> TRUE, amount |-> Subsidy, script |-> ScriptByName(c.cba)]
    ELSE [height |-> c.ha, cb |-> FALSE, amount |-> c.outs[ref].amount, script |-> ScriptByName(c.outs[ref].sname)]

ChainExpect(c) ==
    LET order == Concat(c.spends)
        spent == SeqSet(order)
        stxos == [k \in 1..Len(order) |-> ChainCoin(c, order[k])]
        ntx   == 1 + (c.ha - 1) + 2 + 1 + Len(c.spends)
    IN  [ coins |-> [i \in 1..(Len(c.outs) + 1) |->
                       LET ref == i - 1
                           u   == ChainCoin(c, ref)
                       IN  [ref |-> ref, spent |-> ref \in spent, script |-> u.script,
                            stored |-> ~Unspendable(u.script),
                            keytail |-> VLQ(FromInt(IF ref = 0 THEN 0 ELSE ref - 1)),
                            value |-> UtxoEnc(u), view |-> StxoView(u)]],
          stxos |-> [k \in 1..Len(order) |-> StxoView(stxos[k])],
          journal |-> JournalEnc(stxos),
          best |-> [height |-> ToLE(FromInt(c.ha + 1), 4), txns |-> ToLE(FromInt(ntx), 8)],
          rowkey |-> ToBE(FromInt(c.ha + 1), 4),
          status |-> StatusDataStored + StatusValid + StatusHeaderStored ]

ChainLaws ==
    case.kind = "chain" =>
        /\ \A t \in 1..Len(case.c.spends) : Len(case.c.spends[t]) > 0
        \* no output is spent twice, every reference exists
        /\ LET order == Concat(case.c.spends)
           IN  /\ \A i, j \in 1..Len(order) : i # j => order[i] # order[j]
               /\ \A i \in 1..Len(order) : order[i] \in 0..4
        /\ DecodeJournal(expect.journal, [t \in 1..Len(case.c.spends) |-> Len(case.c.spends[t])])
              = [err |-> FALSE, stxos |-> expect.stxos]

-----------------------------------------------------------------------------
(* enumeration: root -> groups -> cases (groups spread the work over TLC's  *)
(* workers)                                                                *)

Groups ==
    {[of |-> "vlq", g |-> g] : g \in VLQGroups}
    \cup {[of |-> "vlqdec", g |-> 0]}
    \cup {[of |-> "vlqrange", g |-> g] : g \in 0..15}
    \cup {[of |-> "amount", g |-> g] : g \in AmountGroups}
    \cup {[of |-> "camount", g |-> g] : g \in 0..3}
    \cup {[of |-> "amtrange", g |-> g] : g \in 0..15}
    \cup {[of |-> "script", g |-> 0], [of |-> "cscript", g |-> 0], [of |-> "csize", g |-> 0], [of |-> "keypair", g |-> 0]}
    \cup {[of |-> "txout", g |-> i] : i \in 1..Len(AllScripts)}
    \cup {[of |-> "utxo", g |-> h] : h \in HeightClasses}
    \cup {[of |-> "stxo", g |-> h] : h \in HeightClasses}
    \cup {[of |-> "journal", g |-> rot] : rot \in 0..(IF Thorough THEN 6 ELSE 1)}
    \cup {[of |-> "best", g |-> 0], [of |-> "row", g |-> 0], [of |-> "chain", g |-> 0]}
    \cup {[of |-> "legacy", g |-> rot] : rot \in 0..(IF Thorough THEN 4 ELSE 1)}

Init == case = [kind |-> "root"] /\ expect = None

Group == /\ case.kind = "root"
         /\ \E g \in Groups : case' = [kind |-> "group", of |-> g.of, g |-> g.g]
         /\ expect' = None

InGroup(of) == case.kind = "group" /\ case.of = of

PickVLQ ==
    /\ InGroup("vlq")
    /\ \E n \in {v \in VLQValues : VLQGroupOf(v) = case.g} :
          case' = [kind |-> "vlq", n |-> n] /\ expect' = VLQExpect(n)
PickVLQDec ==
    /\ InGroup("vlqdec")
    /\ \E b \in VLQDecStrings : case' = [kind |-> "vlqdec", bytes |-> b] /\ expect' = DecVLQ(b)
PickVLQRange ==
    /\ InGroup("vlqrange")
    /\ \E lo \in {l \in RangeLows : (l \div 256) % 16 = case.g} :
          case' = [kind |-> "vlqrange", lo |-> lo] /\ expect' = VLQRangeExpect(lo)
PickAmount ==
    /\ InGroup("amount")
    /\ \E a \in {v \in AmountValues : AmountGroupOf(v) = case.g} :
          case' = [kind |-> "amount", a |-> a] /\ expect' = AmountExpect(a)
PickCAmount ==
    /\ InGroup("camount")
    /\ \E c \in {v \in CAmountValues : Low(v) % 4 = case.g} :
          case' = [kind |-> "camount", c |-> c] /\ expect' = CAmountExpect(c)
PickAmtRange ==
    /\ InGroup("amtrange")
    /\ \E lo \in {l \in AmtRangeLows : (l \div 256) % 16 = case.g} :
          case' = [kind |-> "amtrange", lo |-> lo] /\ expect' = AmtRangeExpect(lo)
PickScript ==
    /\ InGroup("script")
    /\ \E r \in SeqSet(AllScripts) :
          case' = [kind |-> "script", name |-> r.name, s |-> r.s] /\ expect' = ScriptExpect(r.s)
PickCScript ==
    /\ InGroup("cscript")
    /\ \E b \in CScriptStrings : case' = [kind |-> "cscript", bytes |-> b] /\ expect' = CScriptExpect(b)
PickCSize ==
    /\ InGroup("csize")
    /\ \E b \in CSizeStrings : case' = [kind |-> "csize", bytes |-> b] /\ expect' = ScriptSizeOf(b)
PickTxOut ==
    /\ InGroup("txout")
    /\ \E a \in TxAmounts \cup {MaxU64, WideAmount} :
          LET r == AllScripts[case.g]
          IN  /\ case' = [kind |-> "txout", amount |-> a, name |-> r.name, script |-> r.s]
              /\ expect' = TxOutExpect(a, r.s)
PickUtxo ==
    /\ InGroup("utxo")
    /\ \/ \E cb \in BOOLEAN, a \in EntryAmounts, n \in EntryScriptNames :
             LET u == [height |-> case.g, cb |-> cb, amount |-> a, script |-> ScriptByName(n)]
             IN  /\ case' = [kind |-> "utxo", name |-> n, u |-> u]
                 /\ expect' = UtxoExpect(u)
       \/ \E i \in 1..Len(DocUtxo) :
             /\ DocUtxo[i].u.height = case.g
             /\ case' = [kind |-> "utxo", name |-> "doc", u |-> DocUtxo[i].u]
             /\ expect' = UtxoExpect(DocUtxo[i].u)
PickKeyPair ==
    /\ InGroup("keypair")
    /\ \E i, j \in 1..NIndex :
          /\ (j = i + 1 \/ j = i \/ (i = 1 /\ j = NIndex) \/ (j = 1 /\ i = NIndex) \/ j = i - 1)
          /\ case' = [kind |-> "keypair", i |-> i, j |-> j] /\ expect' = KeyPairExpect(i, j)
PickStxo ==
    /\ InGroup("stxo")
    /\ \E cb \in BOOLEAN, a \in EntryAmounts, n \in EntryScriptNames :
          LET s == [height |-> case.g, cb |-> cb, amount |-> a, script |-> ScriptByName(n)]
          IN  case' = [kind |-> "stxo", name |-> n, s |-> s] /\ expect' = StxoExpect(s)
PickJournal ==
    /\ InGroup("journal")
    /\ \/ \E counts \in Shapes :
             LET stxos == StxosFor(counts, case.g)
             IN  /\ case' = [kind |-> "journal", stxos |-> stxos, counts |-> counts]
                 /\ expect' = JournalExpect(stxos, counts)
       \/ \E i \in 1..Len(DocJournal) :
             /\ case.g = 0
             /\ case' = [kind |-> "journal", stxos |-> DocJournal[i].stxos, counts |-> <<Len(DocJournal[i].stxos)>>]
             /\ expect' = JournalExpect(DocJournal[i].stxos, <<Len(DocJournal[i].stxos)>>)
PickBest ==
    /\ InGroup("best")
    /\ \E h \in BestHashes, ht \in BestHeights, t \in BestTxns, w \in BestWorks :
          /\ (Thorough \/ (h = H32(1) /\ (Len(ht) + Len(t) + Len(w)) % 2 = 0) \/ (ht = <<1>> /\ t = <<1>>))
          /\ LET b == [hash |-> h, height |-> ht, txns |-> t, work |-> w]
             IN  case' = [kind |-> "best", b |-> b] /\ expect' = BestExpect(b)
PickRow ==
    /\ InGroup("row")
    /\ \E v \in RowVersions, tm \in RowTimes, bt \in RowBits, nn \in RowNonces, st \in RowStatuses, ht \in RowHeights :
          /\ (Thorough \/ (Len(v) + Len(tm) + Len(nn) + st + Len(ht)) % 9 = 0)
          /\ LET r == [hash |-> H32(3), height |-> ht, status |-> st,
                       header |-> [version |-> v, prev |-> H32(4), merkle |-> H32(5), time |-> tm,
                                   bits |-> bt, nonce |-> nn]]
             IN  case' = [kind |-> "row", r |-> r] /\ expect' = RowExpect(r)
PickLegacy ==
    /\ InGroup("legacy")
    /\ \/ \E idxs \in LegacyIdxSets, cb \in BOOLEAN, h \in {1, 113931, 2147483647}, v \in {<<1>>, FromInt(128)} :
             LET l == [version |-> v, height |-> h, cb |-> cb, outs |-> LegacyOuts(idxs, case.g)]
             IN  case' = [kind |-> "legacy", l |-> l] /\ expect' = LegacyExpect(l)
       \/ \E i \in 1..Len(DocLegacy) :
             /\ case.g = 0
             /\ case' = [kind |-> "legacy", l |-> DocLegacy[i].l] /\ expect' = LegacyExpect(DocLegacy[i].l)
PickChain ==
    /\ InGroup("chain")
    /\ \E r \in 0..(NChain - 1) :
          case' = [kind |-> "chain", c |-> ChainCase(r)] /\ expect' = ChainExpect(ChainCase(r))

Next == \/ Group \/ PickVLQ \/ PickVLQDec \/ PickVLQRange \/ PickAmount \/ PickCAmount \/ PickAmtRange
        \/ PickScript \/ PickCScript \/ PickCSize \/ PickTxOut \/ PickUtxo \/ PickKeyPair \/ PickStxo \/ PickJournal
        \/ PickBest \/ PickRow \/ PickLegacy \/ PickChain

Spec == Init /\ [][Next]_vars

\* Not a law: prints every state on one line (as JSON, community module Json) for
\* the binder; TLC evaluates an invariant exactly once per distinct state.
EmitCase == PrintT(ToJson(<<"CASE", case, expect>>))

\* documented examples, checked once (they do not depend on the state)
DocLaws == case.kind = "root" => (DocNumberLaws /\ DocUtxoLaws /\ DocJournalLaws /\ DocLegacyLaws /\ OrderBreaks)
=============================================================================
