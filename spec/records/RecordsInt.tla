----------------------------- MODULE RecordsInt -----------------------------
(***************************************************************************)
(* C15, the two arithmetic bijections over UNBOUNDED integers, for the     *)
(* symbolic checker Apalache (TLC's integers are 32-bit; RecordsCases.tla  *)
(* checks the same laws on digit-pattern classes with RecNat numbers).     *)
(* The loops of the code are unrolled: at most 9 trailing zeros are        *)
(* stripped, a 64-bit number has at most 10 VLQ digits.  Definitions       *)
(* mirror Records.tla (Compress / Decompress / VLQ / DecVLQ) on Int.       *)
(*                                                                         *)
(*   apalache-mc check --length=0 --inv=<law> RecordsInt.tla               *)
(* for law in AmountClass0..9, CompressedClass0..9, MonetaryRangeFits,     *)
(* VLQStepLaws, VLQClass1..3 (run by the binder in the thorough tier).     *)
(* AmountLaws / VLQLaws are the unsplit statements, kept for reference:    *)
(* Z3 does not finish them within 25 minutes.                              *)
(***************************************************************************)
EXTENDS Integers

VARIABLE
    \* @type: Int;
    n

Two64 == 18446744073709551616
MaxSatoshi == 2100000000000000

\* 1 + 10*(9*(m \div 10) + (m % 10) - 1) + e  with m = a \div p, p = 10^e
Split(a, e, p) == 1 + 10 * (9 * ((a \div p) \div 10) + ((a \div p) % 10) - 1) + e
Compress(a) ==
    IF a = 0 THEN 0
    ELSE IF a % 10 # 0 THEN Split(a, 0, 1)
    ELSE IF a % 100 # 0 THEN Split(a, 1, 10)
    ELSE IF a % 1000 # 0 THEN Split(a, 2, 100)
    ELSE IF a % 10000 # 0 THEN Split(a, 3, 1000)
    ELSE IF a % 100000 # 0 THEN Split(a, 4, 10000)
    ELSE IF a % 1000000 # 0 THEN Split(a, 5, 100000)
    ELSE IF a % 10000000 # 0 THEN Split(a, 6, 1000000)
    ELSE IF a % 100000000 # 0 THEN Split(a, 7, 10000000)
    ELSE IF a % 1000000000 # 0 THEN Split(a, 8, 100000000)
    ELSE 10 + 10 * ((a \div 1000000000) - 1)

Scale(m, e) ==
    IF e = 0 THEN m * 1
    ELSE IF e = 1 THEN m * 10
    ELSE IF e = 2 THEN m * 100
    ELSE IF e = 3 THEN m * 1000
    ELSE IF e = 4 THEN m * 10000
    ELSE IF e = 5 THEN m * 100000
    ELSE IF e = 6 THEN m * 1000000
    ELSE IF e = 7 THEN m * 10000000
    ELSE IF e = 8 THEN m * 100000000
    ELSE m * 1000000000
Decompress(c) ==
    IF c = 0 THEN 0
    ELSE LET e == (c - 1) % 10
             q == (c - 1) \div 10
         IN  IF e < 9 THEN Scale((q \div 9) * 10 + (q % 9) + 1, e)
             ELSE Scale(q + 1, 9)

\* number of trailing zeros the scheme records
Zeros(a) ==
    IF a % 10 # 0 THEN 0
    ELSE IF a % 100 # 0 THEN 1
    ELSE IF a % 1000 # 0 THEN 2
    ELSE IF a % 10000 # 0 THEN 3
    ELSE IF a % 100000 # 0 THEN 4
    ELSE IF a % 1000000 # 0 THEN 5
    ELSE IF a % 10000000 # 0 THEN 6
    ELSE IF a % 100000000 # 0 THEN 7
    ELSE IF a % 1000000000 # 0 THEN 8
    ELSE 9

AmountLaws ==
    (n >= 0 /\ n < Two64) =>
        \* lossless, in both directions (a bijection of the naturals)
        /\ Decompress(Compress(n)) = n
        /\ Compress(Decompress(n)) = n
        /\ Compress(n) >= 0
        /\ (n = 0) = (Compress(n) = 0)
        \* the exponent is recoverable from the compressed value
        /\ (n > 0 => (Compress(n) - 1) % 10 = Zeros(n))
        \* the compressed value never needs more than about 9x the amount,
        \* so every amount of the monetary range fits 64 bits comfortably
        /\ Compress(n) <= 9 * n + 1
        /\ (n <= MaxSatoshi => Compress(n) < Two64)

\* VLQ: x0 = n, x(i+1) = (x(i) \div 128) - 1 while x(i) > 127; digit i = x(i) % 128
X0(a) == a
X1(a) == (X0(a) \div 128) - 1
X2(a) == (X1(a) \div 128) - 1
X3(a) == (X2(a) \div 128) - 1
X4(a) == (X3(a) \div 128) - 1
X5(a) == (X4(a) \div 128) - 1
X6(a) == (X5(a) \div 128) - 1
X7(a) == (X6(a) \div 128) - 1
X8(a) == (X7(a) \div 128) - 1
X9(a) == (X8(a) \div 128) - 1
\* number of bytes (serializeSizeVLQ)
VLQLen(a) ==
    IF X0(a) <= 127 THEN 1
    ELSE IF X1(a) <= 127 THEN 2
    ELSE IF X2(a) <= 127 THEN 3
    ELSE IF X3(a) <= 127 THEN 4
    ELSE IF X4(a) <= 127 THEN 5
    ELSE IF X5(a) <= 127 THEN 6
    ELSE IF X6(a) <= 127 THEN 7
    ELSE IF X7(a) <= 127 THEN 8
    ELSE IF X8(a) <= 127 THEN 9
    ELSE 10
Digit(a, i) ==
    IF i = 0 THEN X0(a) % 128
    ELSE IF i = 1 THEN X1(a) % 128
    ELSE IF i = 2 THEN X2(a) % 128
    ELSE IF i = 3 THEN X3(a) % 128
    ELSE IF i = 4 THEN X4(a) % 128
    ELSE IF i = 5 THEN X5(a) % 128
    ELSE IF i = 6 THEN X6(a) % 128
    ELSE IF i = 7 THEN X7(a) % 128
    ELSE IF i = 8 THEN X8(a) % 128
    ELSE IF i = 9 THEN X9(a) % 128
    ELSE 0
\* deserializeVLQ of the k bytes whose digits are Digit(a, k-1) (first byte) ..
\* Digit(a, 0) (last byte): acc = acc*128 + digit, plus one after every
\* continuation byte
D9(a) == Digit(a, 9)
D8(a, k) == IF k = 9 THEN Digit(a, 8) ELSE (D9(a) + 1) * 128 + Digit(a, 8)
D7(a, k) == IF k = 8 THEN Digit(a, 7) ELSE (D8(a, k) + 1) * 128 + Digit(a, 7)
D6(a, k) == IF k = 7 THEN Digit(a, 6) ELSE (D7(a, k) + 1) * 128 + Digit(a, 6)
D5(a, k) == IF k = 6 THEN Digit(a, 5) ELSE (D6(a, k) + 1) * 128 + Digit(a, 5)
D4(a, k) == IF k = 5 THEN Digit(a, 4) ELSE (D5(a, k) + 1) * 128 + Digit(a, 4)
D3(a, k) == IF k = 4 THEN Digit(a, 3) ELSE (D4(a, k) + 1) * 128 + Digit(a, 3)
D2(a, k) == IF k = 3 THEN Digit(a, 2) ELSE (D3(a, k) + 1) * 128 + Digit(a, 2)
D1(a, k) == IF k = 2 THEN Digit(a, 1) ELSE (D2(a, k) + 1) * 128 + Digit(a, 1)
D0(a, k) == IF k = 1 THEN Digit(a, 0) ELSE (D1(a, k) + 1) * 128 + Digit(a, 0)
DecVLQ(a) == D0(a, VLQLen(a))
MinOfLen(k) ==
    IF k = 1 THEN 0
    ELSE IF k = 2 THEN 128
    ELSE IF k = 3 THEN 16512
    ELSE IF k = 4 THEN 2113664
    ELSE IF k = 5 THEN 270549120
    ELSE IF k = 6 THEN 34630287488
    ELSE IF k = 7 THEN 4432676798592
    ELSE IF k = 8 THEN 567382630219904
    ELSE IF k = 9 THEN 72624976668147840
    ELSE IF k = 10 THEN 9295997013522923648
    ELSE 1189887617730934227072

VLQLaws ==
    (n >= 0 /\ n < Two64) =>
        /\ DecVLQ(n) = n                                   \* round trip
        /\ VLQLen(n) >= 1 /\ VLQLen(n) <= 10
        \* canonical length: k bytes exactly for MinOfLen(k) <= n < MinOfLen(k+1)
        /\ MinOfLen(VLQLen(n)) <= n
        /\ n < MinOfLen(VLQLen(n) + 1)
        \* every digit is a 7-bit value (so every byte is well formed)
        /\ \A i \in 0..9 : (i >= VLQLen(n)) \/ (Digit(n, i) >= 0 /\ Digit(n, i) <= 127)

\* The same laws split by exponent class: one small solver query per class
\* (the conjunction over all classes is AmountLaws; Z3 does not finish the
\* unsplit query in 25 minutes).
AmountClass0 ==
    (n > 0 /\ n < Two64 /\ n % 10 # 0) =>
        /\ Zeros(n) = 0
        /\ Decompress(Compress(n)) = n
        /\ (Compress(n) - 1) % 10 = 0
        /\ Compress(n) > 0 /\ Compress(n) <= 9 * n + 1
AmountClass1 ==
    (n > 0 /\ n < Two64 /\ n % 10 = 0 /\ n % 100 # 0) =>
        /\ Zeros(n) = 1
        /\ Decompress(Compress(n)) = n
        /\ (Compress(n) - 1) % 10 = 1
        /\ Compress(n) > 0 /\ Compress(n) <= 9 * n + 1
AmountClass2 ==
    (n > 0 /\ n < Two64 /\ n % 100 = 0 /\ n % 1000 # 0) =>
        /\ Zeros(n) = 2
        /\ Decompress(Compress(n)) = n
        /\ (Compress(n) - 1) % 10 = 2
        /\ Compress(n) > 0 /\ Compress(n) <= 9 * n + 1
AmountClass3 ==
    (n > 0 /\ n < Two64 /\ n % 1000 = 0 /\ n % 10000 # 0) =>
        /\ Zeros(n) = 3
        /\ Decompress(Compress(n)) = n
        /\ (Compress(n) - 1) % 10 = 3
        /\ Compress(n) > 0 /\ Compress(n) <= 9 * n + 1
AmountClass4 ==
    (n > 0 /\ n < Two64 /\ n % 10000 = 0 /\ n % 100000 # 0) =>
        /\ Zeros(n) = 4
        /\ Decompress(Compress(n)) = n
        /\ (Compress(n) - 1) % 10 = 4
        /\ Compress(n) > 0 /\ Compress(n) <= 9 * n + 1
AmountClass5 ==
    (n > 0 /\ n < Two64 /\ n % 100000 = 0 /\ n % 1000000 # 0) =>
        /\ Zeros(n) = 5
        /\ Decompress(Compress(n)) = n
        /\ (Compress(n) - 1) % 10 = 5
        /\ Compress(n) > 0 /\ Compress(n) <= 9 * n + 1
AmountClass6 ==
    (n > 0 /\ n < Two64 /\ n % 1000000 = 0 /\ n % 10000000 # 0) =>
        /\ Zeros(n) = 6
        /\ Decompress(Compress(n)) = n
        /\ (Compress(n) - 1) % 10 = 6
        /\ Compress(n) > 0 /\ Compress(n) <= 9 * n + 1
AmountClass7 ==
    (n > 0 /\ n < Two64 /\ n % 10000000 = 0 /\ n % 100000000 # 0) =>
        /\ Zeros(n) = 7
        /\ Decompress(Compress(n)) = n
        /\ (Compress(n) - 1) % 10 = 7
        /\ Compress(n) > 0 /\ Compress(n) <= 9 * n + 1
AmountClass8 ==
    (n > 0 /\ n < Two64 /\ n % 100000000 = 0 /\ n % 1000000000 # 0) =>
        /\ Zeros(n) = 8
        /\ Decompress(Compress(n)) = n
        /\ (Compress(n) - 1) % 10 = 8
        /\ Compress(n) > 0 /\ Compress(n) <= 9 * n + 1
AmountClass9 ==
    (n > 0 /\ n < Two64 /\ n % 1000000000 = 0) =>
        /\ Zeros(n) = 9
        /\ Decompress(Compress(n)) = n
        /\ (Compress(n) - 1) % 10 = 9
        /\ Compress(n) > 0 /\ Compress(n) <= 9 * n + 1
\* the other direction, split by the residue of c - 1
CompressedClass0 ==
    (n > 0 /\ n < Two64 /\ (n - 1) % 10 = 0) =>
        /\ Decompress(n) > 0
        /\ Zeros(Decompress(n)) = 0
        /\ Compress(Decompress(n)) = n
CompressedClass1 ==
    (n > 0 /\ n < Two64 /\ (n - 1) % 10 = 1) =>
        /\ Decompress(n) > 0
        /\ Zeros(Decompress(n)) = 1
        /\ Compress(Decompress(n)) = n
CompressedClass2 ==
    (n > 0 /\ n < Two64 /\ (n - 1) % 10 = 2) =>
        /\ Decompress(n) > 0
        /\ Zeros(Decompress(n)) = 2
        /\ Compress(Decompress(n)) = n
CompressedClass3 ==
    (n > 0 /\ n < Two64 /\ (n - 1) % 10 = 3) =>
        /\ Decompress(n) > 0
        /\ Zeros(Decompress(n)) = 3
        /\ Compress(Decompress(n)) = n
CompressedClass4 ==
    (n > 0 /\ n < Two64 /\ (n - 1) % 10 = 4) =>
        /\ Decompress(n) > 0
        /\ Zeros(Decompress(n)) = 4
        /\ Compress(Decompress(n)) = n
CompressedClass5 ==
    (n > 0 /\ n < Two64 /\ (n - 1) % 10 = 5) =>
        /\ Decompress(n) > 0
        /\ Zeros(Decompress(n)) = 5
        /\ Compress(Decompress(n)) = n
CompressedClass6 ==
    (n > 0 /\ n < Two64 /\ (n - 1) % 10 = 6) =>
        /\ Decompress(n) > 0
        /\ Zeros(Decompress(n)) = 6
        /\ Compress(Decompress(n)) = n
CompressedClass7 ==
    (n > 0 /\ n < Two64 /\ (n - 1) % 10 = 7) =>
        /\ Decompress(n) > 0
        /\ Zeros(Decompress(n)) = 7
        /\ Compress(Decompress(n)) = n
CompressedClass8 ==
    (n > 0 /\ n < Two64 /\ (n - 1) % 10 = 8) =>
        /\ Decompress(n) > 0
        /\ Zeros(Decompress(n)) = 8
        /\ Compress(Decompress(n)) = n
CompressedClass9 ==
    (n > 0 /\ n < Two64 /\ (n - 1) % 10 = 9) =>
        /\ Decompress(n) > 0
        /\ Zeros(Decompress(n)) = 9
        /\ Compress(Decompress(n)) = n
MonetaryRangeFits == (n >= 0 /\ n <= MaxSatoshi) => (Compress(n) >= 0 /\ Compress(n) < 18900000000000002)

\* VLQLaws split by encoded length (the unsplit query is too hard for Z3)
VLQClass1 ==
    (n >= 0 /\ n < Two64 /\ MinOfLen(1) <= n /\ n < MinOfLen(2)) =>
        /\ VLQLen(n) = 1
        /\ D0(n, 1) = n
        /\ \A i \in 0..0 : Digit(n, i) >= 0 /\ Digit(n, i) <= 127
VLQClass2 ==
    (n >= 0 /\ n < Two64 /\ MinOfLen(2) <= n /\ n < MinOfLen(3)) =>
        /\ VLQLen(n) = 2
        /\ D0(n, 2) = n
        /\ \A i \in 0..1 : Digit(n, i) >= 0 /\ Digit(n, i) <= 127
VLQClass3 ==
    (n >= 0 /\ n < Two64 /\ MinOfLen(3) <= n /\ n < MinOfLen(4)) =>
        /\ VLQLen(n) = 3
        /\ D0(n, 3) = n
        /\ \A i \in 0..2 : Digit(n, i) >= 0 /\ Digit(n, i) <= 127

\* The induction steps behind the VLQ laws, for ALL integers (no unrolling):
\* encoding strips the digit n % 128 and continues with q = n \div 128 - 1;
\* decoding computes (q + 1) * 128 + digit.  With these steps the round trip
\* and the canonical length follow by induction on the number of digits
\* (MinOfLen(k+1) = (MinOfLen(k) + 1) * 128); the unrolled classes above cover
\* lengths 1 to 3 directly (longer classes exceed the solver's patience).
VLQStepLaws ==
    /\ (n >= 0 => (n % 128 >= 0 /\ n % 128 <= 127))
    /\ (n >= 128 =>
          LET q == (n \div 128) - 1
          IN  /\ q >= 0 /\ q < n
              /\ (q + 1) * 128 + (n % 128) = n                 \* decode step inverts encode step
              /\ \A k \in 1..9 :                                \* canonical length step
                    ((MinOfLen(k) <= q) = (MinOfLen(k + 1) <= n))
              /\ (n < Two64 => q < Two64))
    /\ \A k \in 1..10 : MinOfLen(k + 1) = (MinOfLen(k) + 1) * 128
    /\ MinOfLen(10) < Two64 /\ Two64 < MinOfLen(11)           \* a 64-bit number has at most 10 digits

Init == n \in Int
Next == UNCHANGED n
=============================================================================
