SPECIFICATION Spec
CONSTANT Tier = "thorough"
INVARIANTS VLQLaws VLQDecLaws VLQRangeLaws AmountLaws CAmountLaws AmtRangeLaws ScriptLaws CScriptLaws
           TxOutLaws UtxoLaws KeyPairLaws StxoLaws JournalLaws BestLaws RowLaws LegacyLaws ChainLaws DocLaws
           EmitCase
