SPECIFICATION Spec
CONSTANT Tier = "thorough"
INVARIANTS VLQLaws VLQDecLaws VLQRangeLaws AmountLaws CAmountLaws AmtRangeLaws ScriptLaws CScriptLaws CSizeLaws
           TxOutLaws UtxoLaws KeyPairLaws StxoLaws JournalLaws BestLaws RowLaws LegacyLaws ChainLaws DocLaws
           EmitCase
