------------------------------- MODULE MCProg -------------------------------
(***************************************************************************)
(* C06.  Program enumeration.  One behaviour = one script program grown    *)
(* token by token (Extend); every state carries, for every configuration   *)
(* <<mode, flag set, tx context>>, the machine state after the program so  *)
(* far and the verdict Bitcoin's semantics give to the spend whose program *)
(* ends here.  Configurations with equal outcomes are grouped (res), a     *)
(* configuration whose prefix failed is not extended.                      *)
(*                                                                         *)
(* mode "b": the program is the scriptPubKey, scriptSig = the minimal      *)
(*           pushes of the initial stack, no witness (sigversion base)     *)
(* mode "w": the program is a P2WSH witness script, witness = initial      *)
(*           stack + script (sigversion v0)                                *)
(* mode "t": the program is a tapscript leaf (version 0xc0), witness =     *)
(*           initial stack + script + control block (sigversion tap)       *)
(*                                                                         *)
(* res = set of [cf, x, s, v, keep]:                                       *)
(*   cf   the configurations of the group                                  *)
(*   x    "run": the program's opcodes are executed; "skip": verification  *)
(*        ends before the program runs (verdict v)                         *)
(*   s    machine state after the last token (err # "": that token fails)  *)
(*   v    "ok" / "fail": verdict of the spend if the program ends here     *)
(*   keep number of (bottom) stack elements left at the end when v = "ok"  *)
(*        (-1: accepted without running a script, final stack undefined)   *)
(***************************************************************************)
EXTENDS ScriptModes

CONSTANT RunNames       \* which enumerations (RunDef) this model contains

VARIABLES run, init, prog, res
vars == <<run, init, prog, res>>

\* an enumeration: longest program, token alphabet, initial stacks, configurations
\* and the way programs grow:
\*   "all"   every token extends every program that is alive (exhaustive)
\*   "alive" only extensions that leave a configuration alive (TLC -simulate:
\*           long random programs that keep running)
\*   "skip"  the program starts with OP_0 OP_IF: the remaining tokens are in a
\*           branch that is not executed
R(len, alpha, ini, cfg, grow) == [len |-> len, alpha |-> alpha, init |-> ini, cfg |-> cfg, grow |-> grow]
RunDef(r) ==
    CASE r = "small3" -> R(3, "small",  "empty", "quick", "all")
      [] r = "unitq"  -> R(1, "all",    "unitq", "quick", "all")
      [] r = "core2"  -> R(2, "core",   "empty", "std",   "all")
      [] r = "lock"   -> R(1, "lock",   "lock",  "lock",  "all")
      [] r = "sigu"   -> R(1, "sigops", "sig",   "std",   "all")
      [] r = "sig2"   -> R(2, "sig",    "sig1",  "std",   "all")
      [] r = "skip3"  -> R(3, "all",    "empty", "quick", "skip")
      [] r = "data"   -> R(1, "data",   "empty", "min",   "all")
      [] r = "sigshape" -> R(1, "sigops", "sigshape", "std", "all")
      [] r = "undec"  -> R(1, "sigops", "undec", "std", "all")
      [] r = "fad"    -> R(3, "fad",    "fad",   "bare",  "all")
      [] r = "sim"    -> R(40, "small", "empty", "quick", "alive")
      \* thorough tier
      [] r = "core3"  -> R(3, "core",   "empty", "std",   "all")
      [] r = "sig3"   -> R(3, "sig",    "sig1",  "std",   "all")
      [] r = "unit"   -> R(1, "all",    "mid2",  "std",   "all")
      [] r = "cond6"  -> R(6, "cond",   "empty", "min",   "all")
      [] r = "cond8"  -> R(8, "cond",   "empty", "min",   "all")
      [] r = "small3s" -> R(3, "small", "empty", "std",   "all")
      [] r = "tiny4"  -> R(4, "tiny",   "empty", "quick", "all")
      [] r = "core2m" -> R(2, "core",   "mid1",  "std",   "all")
      [] r = "simcore" -> R(40, "core", "empty", "std",   "alive")
      \* development
      [] r = "dev"    -> R(2, "core",   "empty", "std",   "all")

NoScript(name) == <<>>

\* bare scripts under every flag set, witness scripts under the flag sets with
\* WITNESS, tapscript under those with TAPROOT
ConfigsFor(ctx) == {<<"b", f, ctx>> : f \in FlagSetNames} \cup {<<"w", f, ctx>> : f \in {"5", "6", "S"}}
                   \cup {<<"t", f, ctx>> : f \in {"6", "S"}}
\* the quick tier leaves out the flag sets that differ from their neighbours only
\* in rules other runs cover (P2SH: MCSeq; CLTV / CSV: the lock run; TAPROOT: MCSeq)
ConfigsQuick == {<<"b", f, "A">> : f \in {"0", "2", "5", "S"}} \cup {<<"w", f, "A">> : f \in {"5", "S"}}
                \cup {<<"t", f, "A">> : f \in {"6", "S"}}
ConfigsOf(CfgName) ==
           CASE CfgName = "std"  -> ConfigsFor("A")
             [] CfgName = "quick" -> ConfigsQuick
             [] CfgName = "lock" -> UNION {ConfigsFor(x) : x \in CtxNames}
             [] CfgName = "min"  -> {<<"b", "0", "A">>, <<"w", "S", "A">>, <<"t", "S", "A">>}
             [] CfgName = "bare" -> {<<"b", "0", "A">>, <<"b", "S", "A">>}

-----------------------------------------------------------------------------
(* alphabets *)

Ops(names) == {Op(n) : n \in names}
SigCheckOps == {"OP_CHECKSIG", "OP_CHECKSIGVERIFY", "OP_CHECKMULTISIG", "OP_CHECKMULTISIGVERIFY", "OP_CHECKSIGADD"}

StackOps == {"OP_TOALTSTACK", "OP_FROMALTSTACK", "OP_2DROP", "OP_2DUP", "OP_3DUP", "OP_2OVER", "OP_2ROT",
             "OP_2SWAP", "OP_IFDUP", "OP_DEPTH", "OP_DROP", "OP_DUP", "OP_NIP", "OP_OVER", "OP_PICK",
             "OP_ROLL", "OP_ROT", "OP_SWAP", "OP_TUCK", "OP_SIZE", "OP_EQUAL", "OP_EQUALVERIFY"}
ArithOps == {"OP_1ADD", "OP_1SUB", "OP_NEGATE", "OP_ABS", "OP_NOT", "OP_0NOTEQUAL", "OP_ADD", "OP_SUB",
             "OP_BOOLAND", "OP_BOOLOR", "OP_NUMEQUAL", "OP_NUMEQUALVERIFY", "OP_NUMNOTEQUAL", "OP_LESSTHAN",
             "OP_GREATERTHAN", "OP_LESSTHANOREQUAL", "OP_GREATERTHANOREQUAL", "OP_MIN", "OP_MAX", "OP_WITHIN"}
FlowOps  == {"OP_IF", "OP_NOTIF", "OP_ELSE", "OP_ENDIF", "OP_VERIFY", "OP_RETURN"}
MiscOps  == {"OP_NOP", "OP_NOP1", "OP_CHECKLOCKTIMEVERIFY", "OP_CHECKSEQUENCEVERIFY", "OP_CODESEPARATOR",
             "OP_SHA256", "OP_HASH160"}
BadOps   == {"OP_CAT", "OP_VERIF", "OP_VER", "OP_RESERVED", "OP_CHECKSIGADD"}

CorePushes == {Op("OP_0"), OpN(1), OpN(2), OpN(16), Op("OP_1NEGATE"),
               Push(E17), Push(EMax), Push(E5B), Push(ENonMin1), Push(ENeg0),
               PushEnc(E1, "d"), PushEnc(E17, "p1"), Push(EBig520), Push(EBig521), Push(EH20),
               TruncPush(ENonMin1, "d")}

AlphaCore == CorePushes \cup Ops(StackOps \cup ArithOps \cup FlowOps \cup MiscOps \cup BadOps) \cup {OpUnknown(187)}

\* a smaller alphabet for deeper enumeration: one or two representatives per class
AlphaSmall ==
    {Op("OP_0"), OpN(1), OpN(2), Op("OP_1NEGATE"), Push(EMax), Push(ENonMin1), PushEnc(E1, "d"), Push(EBig520)}
    \cup Ops({"OP_IF", "OP_NOTIF", "OP_ELSE", "OP_ENDIF", "OP_VERIFY", "OP_RETURN",
              "OP_TOALTSTACK", "OP_FROMALTSTACK", "OP_2DUP", "OP_IFDUP", "OP_DEPTH", "OP_DROP", "OP_DUP",
              "OP_PICK", "OP_ROLL", "OP_ROT", "OP_SWAP", "OP_SIZE", "OP_EQUAL",
              "OP_1ADD", "OP_NEGATE", "OP_NOT", "OP_ADD", "OP_SUB", "OP_BOOLAND", "OP_NUMEQUAL", "OP_LESSTHAN",
              "OP_MIN", "OP_WITHIN", "OP_NOP", "OP_NOP1", "OP_CHECKLOCKTIMEVERIFY", "OP_CODESEPARATOR",
              "OP_SHA256", "OP_CAT", "OP_VERIF", "OP_RESERVED"})

\* the smallest alphabet, for the deepest enumeration
AlphaTiny ==
    {Op("OP_0"), OpN(1), OpN(2), Push(EMax)}
    \cup Ops({"OP_IF", "OP_NOTIF", "OP_ELSE", "OP_ENDIF", "OP_VERIFY", "OP_RETURN", "OP_TOALTSTACK", "OP_FROMALTSTACK",
              "OP_DUP", "OP_DROP", "OP_SWAP", "OP_PICK", "OP_SIZE", "OP_EQUAL", "OP_ADD", "OP_SUB", "OP_NOT", "OP_DEPTH",
              "OP_CODESEPARATOR", "OP_CHECKLOCKTIMEVERIFY"})
\* conditionals only: nesting, ELSE in branches that are skipped
AlphaCond == {Op("OP_0"), OpN(1)} \cup Ops({"OP_IF", "OP_NOTIF", "OP_ELSE", "OP_ENDIF", "OP_RETURN"})

\* OP_DATA_1 .. OP_DATA_75, each with data of its length
AlphaData == {PushEnc(IF len <= 40 THEN Raw([i \in 1..len |-> 5]) ELSE Fill(5, len), "d") : len \in 1..75}

\* FindAndDelete with an empty signature: OP_0 in the script code of a signature check
AlphaFad == {Op("OP_0"), Push(K1c)} \cup Ops({"OP_DROP", "OP_CHECKSIG", "OP_CHECKMULTISIG"})

\* every opcode byte and every push form: the unit sweep
AlphaAll == AllOneByte \cup PushForms

\* signature checking: keys in every form, one signature the program pushes
\* itself (FindAndDelete / a signature cannot sign itself), the checking opcodes
SigInScript == SigElem("K1", 129, 0, 0, 0)    \* ALL|ANYONECANPAY: not one of the initial-stack signatures
AlphaSig ==
    {Op("OP_0"), OpN(1), OpN(2), Push(K1c), Push(K1u), Push(K1h), Push(K1x), Push(K1bad), Push(K1s31), Push(K2c),
     Push(SigInScript), PushEnc(SigInScript, "p1")}
    \cup Ops({"OP_CHECKSIG", "OP_CHECKSIGVERIFY", "OP_CHECKMULTISIG", "OP_CHECKMULTISIGVERIFY", "OP_CHECKSIGADD",
              "OP_CODESEPARATOR", "OP_NOT", "OP_SWAP", "OP_DUP"})
\* the signature checking opcodes alone (unit sweep over signature stacks)
AlphaSigOps == Ops({"OP_CHECKSIG", "OP_CHECKSIGVERIFY", "OP_CHECKMULTISIG", "OP_CHECKMULTISIGVERIFY", "OP_CHECKSIGADD"})
AlphaLock == Ops({"OP_CHECKLOCKTIMEVERIFY", "OP_CHECKSEQUENCEVERIFY", "OP_NOP1"})

AlphaOf(AlphaName) ==
        CASE AlphaName = "core"  -> AlphaCore
           [] AlphaName = "small" -> AlphaSmall
           [] AlphaName = "tiny"  -> AlphaTiny
           [] AlphaName = "cond"  -> AlphaCond
           [] AlphaName = "data"  -> AlphaData
           [] AlphaName = "fad"   -> AlphaFad
           [] AlphaName = "all"   -> AlphaAll
           [] AlphaName = "sig"   -> AlphaSig
           [] AlphaName = "sigops" -> AlphaSigOps
           [] AlphaName = "lock"  -> AlphaLock

ASSUME \A r \in RunNames : \A t \in AlphaOf(RunDef(r).alpha) : TokenOK(t)

(* initial stacks *)
ElemsRich == {E0, E1, E2, E16, E17, EM1, ENeg0, EZero1, ENonMin1, E127, E128, E256, EMax, EMin, E5B,
              EBig520, EBig521, EZeros, EH20}
ElemsMid  == {E0, E1, E2, EM1, ENeg0, ENonMin1, EMax, EMin, E5B, EBig520, EH20}
ElemsTiny == {E0, E1, E2, E3, EMax, EH20}
ElemsLock == {E0, E1, E10, E11, EM1, ENeg0, ENonMin1, E500, E501, EThr, EThrM1, EThrP1, EU32, E5B, E6B, ETyp,
              ETyp10, ETyp11, E65535, E65536, EMax}

Stacks(S, k) == UNION {[1..j -> S] : j \in 0..k}

\* stacks for the signature opcodes
SigsAll == UNION {SigVariants(v) : v \in 0..2} \cup SchnorrVariants \cup {E0, E1}
KeysAll == {K1c, K1u, K1h, K1x, K1bad, K1s31, K2c, K2x, E0, E1}
SigKeyStacks == {<<sg, k>> : sg \in SigsAll, k \in KeysAll}
SigAddStacks == {<<sg, nn, k>> : sg \in SchnorrVariants \cup {E0, E1, SigBy("K1", 2)}, nn \in {E0, E1, EMax, ENonMin1, E5B},
                                 k \in {K1x, K2x, K1c, K1s31, E0}}
\* CHECKMULTISIG: dummy sigs.. m keys.. n
Multi(dummy, sigs, keys) == <<dummy>> \o sigs \o <<NumElem(Len(sigs))>> \o keys \o <<NumElem(Len(keys))>>
MultiStacks ==
    UNION { { Multi(d, <<SigBy("K1", v)>>, <<K1c>>),
              Multi(d, <<SigBy("K1", v)>>, <<K2c, K1c>>),
              Multi(d, <<SigBy("K1", v)>>, <<K1c, K2c>>),
              Multi(d, <<SigBy("K2", v)>>, <<K1c, K2c>>),
              Multi(d, <<SigBy("K1", v), SigBy("K2", v)>>, <<K1c, K2c>>),
              Multi(d, <<SigBy("K2", v), SigBy("K1", v)>>, <<K1c, K2c>>),            \* wrong order
              Multi(d, <<SigBy("K1", v), SigBy("K3", v)>>, <<K1c, K2c, K3c>>),
              Multi(d, <<SigBy("K1", v), SigBy("K1", v)>>, <<K1c, K2c, K3c>>),       \* one signature twice
              Multi(d, <<E0, SigBy("K2", v)>>, <<K1c, K2c>>),                        \* an empty signature
              Multi(d, <<E0>>, <<K1c>>),
              Multi(d, <<E0>>, <<K1bad>>),                                           \* empty signature, bad key
              Multi(d, <<E0>>, <<K1u>>),                                             \* empty signature, uncompressed key (segwit)
              Multi(d, <<SigBy("K2", v)>>, <<K1bad, K2c>>),                          \* bad key tried first
              Multi(d, <<SigBy("K1", v)>>, <<K1c, K1bad>>),                          \* bad key never reached
              Multi(d, <<SigBy("K1", v)>>, <<K1u>>),
              Multi(d, <<SigBy("K1", v)>>, <<K1h>>),
              Multi(d, <<SigElem("K1", 1, 1, v, 0)>>, <<K1c>>),                      \* high S
              Multi(d, <<SigElem("K1", 1, 2, v, 0)>>, <<K1c>>),                      \* BER
              Multi(d, <<SigElem("K1", 4, 0, v, 0)>>, <<K1c>>),                      \* undefined hash type
              Multi(d, <<E1>>, <<K1c>>),                                             \* garbage signature
              Multi(d, <<>>, <<K1c>>),                                               \* 0 of 1
              Multi(d, <<>>, <<>>) }                                                 \* 0 of 0
            : d \in {E0, E1}, v \in 0..1 }
    \cup { <<E0, SigBy("K1", 0), E2, K1c, E1>>,                                        \* more signatures than keys
           <<E0, EM1, K1c, E1>>, <<E0, E0, K1c, EM1>>,                                 \* negative counts
           <<E0, E0, K1c, ENonMin1>>,                                                 \* non-minimal count
           <<E0, E0, E5B>>,                                                           \* count too long
           <<E0, E0>> \o [i \in 1..20 |-> K1c] \o <<NumElem(20)>>,                    \* 0 of 20
           <<E0, E0>> \o [i \in 1..21 |-> K1c] \o <<NumElem(21)>>,                    \* 0 of 21
           <<E0, SigBy("K1", 0), E1>> \o [i \in 1..20 |-> IF i = 1 THEN K1c ELSE K2c] \o <<NumElem(20)>>,  \* the last key matches
           <<SigBy("K1", 0), E1, K1c, E1>>,                                            \* no dummy
           <<E1, K1c, E1>>, <<K1c, E1>>, <<E1>>, <<>> }

InitStacksOf(InitName) ==
    CASE InitName = "empty" -> {<<>>}
      [] InitName = "sig"   -> SigKeyStacks \cup SigAddStacks \cup MultiStacks
      [] InitName = "sig1"  -> {<<>>, <<SigBy("K1", 0)>>, <<SigBy("K1", 1)>>, <<SigElem("K1", 0, 64, 2, 0)>>,
                                <<E0, SigBy("K1", 0)>>, <<E0, SigBy("K1", 1)>>, <<E0>>,
                                <<SigElem("K1", 1, 0, 0, 1)>>, <<SigElem("K1", 1, 0, 1, 1)>>, <<SigElem("K1", 0, 64, 2, 1)>>}
      [] InitName = "rich2" -> Stacks(ElemsRich, 2) \cup [1..3 -> ElemsTiny]
                               \cup {<<E1, E2, E3, E16, E17, EM1>>, <<E1, E2, E3, E16>>}
      [] InitName = "mid2"  -> Stacks(ElemsMid, 2) \cup [1..3 -> {E0, E1, E2, EMax}]
                               \cup {<<E1, E2, E3, E16, E17, EM1>>, <<E1, E2, E3, E16>>}
      [] InitName = "mid1"  -> Stacks(ElemsMid, 1)
      [] InitName = "unitq" -> Stacks(ElemsMid, 1) \cup [1..2 -> {E0, E1, E2, EMax}]
                               \cup [1..3 -> {E0, E2}]
                               \cup {<<E1, E2, E3, E16, E17, EM1>>, <<E1, E2, E3, E16>>}
      [] InitName = "lock"  -> Stacks(ElemsLock, 1)
      [] InitName = "sigshape" -> {<<sg, K1c>> : sg \in ShapeSigs} \cup {Multi(E0, <<sg>>, <<K1c>>) : sg \in ShapeSigs}
                                  \cup {Multi(E0, <<sg, SigBy("K1", 0)>>, <<K1c, K2c>>) : sg \in ShapeSigs}
      [] InitName = "undec" ->
            LET sigs == UNION {UndecSigs(v) \cup {SigBy("K1", v)} : v \in 0..1} \cup {E0}
                keys == {K1offc, K1offu, K1h, K1c} IN
            {<<sg, k>> : sg \in sigs, k \in keys}
            \cup UNION {{Multi(E0, <<sg>>, <<k>>), Multi(E0, <<sg>>, <<k, K1c>>)} : sg \in sigs, k \in keys}
      [] InitName = "fad"   -> {<<>>, <<E0, E0, E1, K1c, E1>>}

-----------------------------------------------------------------------------
\* outcome record (without cf)
Out(x, s, f) == [x |-> x, s |-> s, v |-> f.v, keep |-> f.keep]
Skip(v) == Out("skip", Failed(""), [v |-> v, keep |-> 0])

\* Tapscript signature-operation budget.  The machine state keeps the budget
\* left; it depends on the length of the whole witness, hence of the whole
\* program.  In res it is stored relative to the full budget of the program
\* so far (0 = nothing consumed), which is what a longer program inherits.
TapBudget(ini, p) == 50 + TapWitSize(ini, ScriptLen(p))
Rel(t, ini, p, s) == IF Mode(t) = "t" /\ s.err = "" THEN [s EXCEPT !.bud = @ - TapBudget(ini, p)] ELSE s
Abs_(t, ini, p, s) == IF Mode(t) = "t" THEN [s EXCEPT !.bud = @ + TapBudget(ini, p)] ELSE s

\* the empty program
Start(t, ini) ==
    LET pre == Pre(t, ini, <<>>)
        s0 == VM0(ini, 0) IN
    IF pre # "" THEN Skip(pre) ELSE Out("run", s0, Fin(t, ini, <<>>, s0))

\* one more token after state s
Step(t, ini, p, s, tok) ==
    LET p2 == Append(p, tok)
        pre == Pre(t, ini, p2)
        s2 == Exec(Abs_(t, ini, p2, s), tok, Vm(t), p2) IN
    IF pre # "" THEN Skip(pre) ELSE Out("run", Rel(t, ini, p2, s2), Fin(t, ini, p2, EndOfScript(s2)))

Group(O) == { [cf |-> {q[1] : q \in {r \in O : r[2] = o}}, x |-> o.x, s |-> o.s, v |-> o.v, keep |-> o.keep]
              : o \in {q[2] : q \in O} }

Alive(g) == g.x = "run" /\ g.s.err = ""

-----------------------------------------------------------------------------
Init ==
    /\ run \in RunNames
    /\ init \in InitStacksOf(RunDef(run).init)
    /\ prog = <<>>
    /\ res = Group({<<t, Start(t, init)>> : t \in ConfigsOf(RunDef(run).cfg)})

Extend(tok) ==
    /\ Len(prog) < RunDef(run).len
    /\ {g \in res : Alive(g)} # {}
    /\ (Len(prog) > 0 => ~prog[Len(prog)].tr)
    \* a signature pushed after a signature check could change what that
    \* earlier check signed or deleted: not enumerated
    /\ (tok.op = "PUSH" /\ tok.e.t = "sig") => ~\E j \in 1..Len(prog) : prog[j].op \in SigCheckOps
    /\ RunDef(run).grow = "skip" => /\ (Len(prog) = 0 => tok = Op("OP_0"))
                                    /\ (Len(prog) = 1 => tok = Op("OP_IF"))
    /\ prog' = Append(prog, tok)
    /\ UNCHANGED <<run, init>>
    /\ res' = Group(UNION { {<<t, Step(t, init, prog, g.s, tok)>> : t \in g.cf} : g \in {h \in res : Alive(h)} })
    /\ RunDef(run).grow = "alive" => {g \in res' : Alive(g)} # {}

Next == \E tok \in AlphaOf(RunDef(run).alpha) : Extend(tok)

Spec == Init /\ [][Next]_vars

-----------------------------------------------------------------------------
(* the limits of the property as invariants of the reference interpreter   *)
Limits ==
    \A g \in res : g.s.err = "" =>
        /\ Len(g.s.st) + Len(g.s.alt) <= 1000
        /\ g.s.ops <= 201
        /\ \A i \in 1..Len(g.s.st) : g.s.st[i].n <= 520

\* every configuration is in exactly one group or was dropped with a failed ancestor
Partition ==
    \A g1, g2 \in res : g1 # g2 => g1.cf \cap g2.cf = {}
=============================================================================
