------------------------------- MODULE MCProg -------------------------------
(***************************************************************************)
(* C06.  Program enumeration.  One behaviour = one script program grown    *)
(* token by token (Extend); every state carries, for every configuration   *)
(* <<mode, flag set, tx context>>, the machine state after the program so  *)
(* far and the verdict Bitcoin's semantics give to the spend whose program *)
(* ends here.  Configurations with equal outcomes are grouped (res), a     *)
(* configuration whose prefix failed is not extended.                      *)
(*                                                                         *)
(* mode "b": the program is the scriptPubKey, scriptSig = the minimal      *)
(*           pushes of the initial stack, no witness (sigversion base)     *)
(* mode "w": the program is a P2WSH witness script, witness = initial      *)
(*           stack + script (sigversion v0)                                *)
(* mode "t": the program is a tapscript leaf (version 0xc0), witness =     *)
(*           initial stack + script + control block (sigversion tap)       *)
(*                                                                         *)
(* res = set of [cf, x, s, v, keep]:                                       *)
(*   cf   the configurations of the group                                  *)
(*   x    "run": the program's opcodes are executed; "skip": verification  *)
(*        ends before the program runs (verdict v)                         *)
(*   s    machine state after the last token (err # "": that token fails)  *)
(*   v    "ok" / "fail": verdict of the spend if the program ends here     *)
(*   keep number of (bottom) stack elements left at the end when v = "ok"  *)
(***************************************************************************)
EXTENDS ScriptAlpha

CONSTANTS MaxLen,        \* longest program
          AlphaName,     \* token alphabet
          InitName,      \* set of initial stacks
          CfgName        \* which set of <<mode, flag set name, tx context name>>

VARIABLES init, prog, res
vars == <<init, prog, res>>

NoScript(name) == <<>>

\* bare scripts under every flag set, witness scripts under the flag sets with
\* WITNESS, tapscript under those with TAPROOT
ConfigsFor(ctx) == {<<"b", f, ctx>> : f \in FlagSetNames} \cup {<<"w", f, ctx>> : f \in {"5", "6", "S"}}
                   \cup {<<"t", f, ctx>> : f \in {"6", "S"}}
Configs == CASE CfgName = "std"  -> ConfigsFor("A")
             [] CfgName = "lock" -> UNION {ConfigsFor(x) : x \in {"A", "B", "C", "D", "E"}}

-----------------------------------------------------------------------------
(* alphabets *)

Ops(names) == {Op(n) : n \in names}

StackOps == {"OP_TOALTSTACK", "OP_FROMALTSTACK", "OP_2DROP", "OP_2DUP", "OP_3DUP", "OP_2OVER", "OP_2ROT",
             "OP_2SWAP", "OP_IFDUP", "OP_DEPTH", "OP_DROP", "OP_DUP", "OP_NIP", "OP_OVER", "OP_PICK",
             "OP_ROLL", "OP_ROT", "OP_SWAP", "OP_TUCK", "OP_SIZE", "OP_EQUAL", "OP_EQUALVERIFY"}
ArithOps == {"OP_1ADD", "OP_1SUB", "OP_NEGATE", "OP_ABS", "OP_NOT", "OP_0NOTEQUAL", "OP_ADD", "OP_SUB",
             "OP_BOOLAND", "OP_BOOLOR", "OP_NUMEQUAL", "OP_NUMEQUALVERIFY", "OP_NUMNOTEQUAL", "OP_LESSTHAN",
             "OP_GREATERTHAN", "OP_LESSTHANOREQUAL", "OP_GREATERTHANOREQUAL", "OP_MIN", "OP_MAX", "OP_WITHIN"}
FlowOps  == {"OP_IF", "OP_NOTIF", "OP_ELSE", "OP_ENDIF", "OP_VERIFY", "OP_RETURN"}
MiscOps  == {"OP_NOP", "OP_NOP1", "OP_CHECKLOCKTIMEVERIFY", "OP_CHECKSEQUENCEVERIFY", "OP_CODESEPARATOR",
             "OP_SHA256", "OP_HASH160"}
BadOps   == {"OP_CAT", "OP_VERIF", "OP_VER", "OP_RESERVED", "OP_CHECKSIGADD"}

CorePushes == {Op("OP_0"), OpN(1), OpN(2), OpN(16), Op("OP_1NEGATE"),
               Push(E17), Push(EMax), Push(E5B), Push(ENonMin1), Push(ENeg0),
               PushEnc(E1, "d"), PushEnc(E17, "p1"), Push(EBig520), Push(EBig521), Push(EH20),
               TruncPush(ENonMin1, "d")}

AlphaCore == CorePushes \cup Ops(StackOps \cup ArithOps \cup FlowOps \cup MiscOps \cup BadOps) \cup {OpUnknown(187)}

\* a smaller alphabet for deeper enumeration: one or two representatives per class
AlphaSmall ==
    {Op("OP_0"), OpN(1), OpN(2), Op("OP_1NEGATE"), Push(EMax), Push(ENonMin1), PushEnc(E1, "d"), Push(EBig520)}
    \cup Ops({"OP_IF", "OP_NOTIF", "OP_ELSE", "OP_ENDIF", "OP_VERIFY", "OP_RETURN",
              "OP_TOALTSTACK", "OP_FROMALTSTACK", "OP_2DUP", "OP_IFDUP", "OP_DEPTH", "OP_DROP", "OP_DUP",
              "OP_PICK", "OP_ROLL", "OP_ROT", "OP_SWAP", "OP_SIZE", "OP_EQUAL",
              "OP_1ADD", "OP_NEGATE", "OP_NOT", "OP_ADD", "OP_SUB", "OP_BOOLAND", "OP_NUMEQUAL", "OP_LESSTHAN",
              "OP_MIN", "OP_WITHIN", "OP_NOP", "OP_NOP1", "OP_CHECKLOCKTIMEVERIFY", "OP_CODESEPARATOR",
              "OP_SHA256", "OP_CAT", "OP_VERIF", "OP_RESERVED"})

\* every opcode byte and every push form: the unit sweep
AlphaAll == AllOneByte \cup PushForms

Alpha == CASE AlphaName = "core"  -> AlphaCore
           [] AlphaName = "small" -> AlphaSmall
           [] AlphaName = "all"   -> AlphaAll

ASSUME \A t \in Alpha : TokenOK(t)

(* initial stacks *)
ElemsRich == {E0, E1, E2, E16, E17, EM1, ENeg0, EZero1, ENonMin1, E127, E128, E256, EMax, EMin, E5B,
              EBig520, EBig521, EZeros, EH20}
ElemsMid  == {E0, E1, E2, EM1, ENeg0, ENonMin1, EMax, EMin, E5B, EBig520, EH20}
ElemsTiny == {E0, E1, E2, E3, EMax, EH20}
ElemsLock == {E0, E1, E10, E11, EM1, ENeg0, ENonMin1, E500, E501, EThr, EThrM1, EThrP1, EU32, E5B, E6B, ETyp,
              ETyp10, ETyp11, E65535, E65536, EMax}

Stacks(S, k) == UNION {[1..j -> S] : j \in 0..k}

InitStacks ==
    CASE InitName = "empty" -> {<<>>}
      [] InitName = "rich2" -> Stacks(ElemsRich, 2) \cup [1..3 -> ElemsTiny]
                               \cup {<<E1, E2, E3, E16, E17, EM1>>, <<E1, E2, E3, E16>>}
      [] InitName = "mid2"  -> Stacks(ElemsMid, 2) \cup [1..3 -> {E0, E1, E2, EMax}]
                               \cup {<<E1, E2, E3, E16, E17, EM1>>, <<E1, E2, E3, E16>>}
      [] InitName = "mid1"  -> Stacks(ElemsMid, 1)
      [] InitName = "lock"  -> Stacks(ElemsLock, 1)

-----------------------------------------------------------------------------
(* per configuration *)

Mode(t) == t[1]
Vm(t) == LET c0 == Config(t) IN
         CASE Mode(t) = "b" -> Base(c0) [] Mode(t) = "w" -> V0(c0) [] Mode(t) = "t" -> Tap(c0)

\* witness size of the tapscript spend: stack + script + 33-byte control block
TapWitSize(ini, plen) == VarIntLen(Len(ini) + 2) + SumSizes(ini) + VarIntLen(plen) + plen + 34

\* what ends verification before the program runs: "" (nothing), "ok", "fail"
Pre(t, ini, p) ==
    CASE Mode(t) = "b" ->
            IF \E i \in 1..Len(ini) : ini[i].n > 520 THEN "fail"
            ELSE IF ScriptLen([i \in 1..Len(ini) |-> MinPush(ini[i])]) > 10000 THEN "fail"
            ELSE IF ScriptLen(p) > 10000 THEN "fail"
            ELSE ""
      [] Mode(t) = "w" ->
            IF ScriptLen(p) > 10000 THEN "fail"
            ELSE IF \E i \in 1..Len(ini) : ini[i].n > 520 THEN "fail"
            ELSE ""
      [] Mode(t) = "t" ->
            IF SuccessScan(p) = "success" THEN (IF "DISCOURAGE_OP_SUCCESS" \in FlagSet(t[2]) THEN "fail" ELSE "ok")
            ELSE IF Len(ini) > 1000 THEN "fail"
            ELSE IF \E i \in 1..Len(ini) : ini[i].n > 520 THEN "fail"
            ELSE ""

\* verdict of the spend whose program p ends in state s (after EndOfScript)
Fin(t, ini, p, s) ==
    LET c0 == Config(t)  no == [v |-> "fail", keep |-> 0] IN
    IF s.err # "" THEN no
    ELSE IF Mode(t) = "b" THEN
        IF Len(s.st) = 0 \/ ~AsBool(s.st[Len(s.st)]) THEN no
        ELSE IF Has(c0, "WITNESS") /\ IsWitnessProgram(p) THEN
            IF Len(ini) > 0 THEN no
            ELSE IF VerifyWitnessProgram(c0, <<>>, WitVersion(p), WitProgram(p), FALSE).ok THEN [v |-> "ok", keep |-> 1]
            ELSE no
        ELSE IF Has(c0, "P2SH") /\ IsP2SH(p) /\ ~Assert(FALSE, <<"enumerated program is a satisfied P2SH template", p>>) THEN no
        ELSE IF Has(c0, "CLEANSTACK") /\ Len(s.st) # 1 THEN no
        ELSE [v |-> "ok", keep |-> Len(s.st)]
    ELSE IF Len(s.st) = 1 /\ AsBool(s.st[1]) THEN [v |-> "ok", keep |-> 1]
    ELSE no

\* outcome record (without cf)
Out(x, s, f) == [x |-> x, s |-> s, v |-> f.v, keep |-> f.keep]
Skip(v) == Out("skip", Failed(""), [v |-> v, keep |-> 0])

\* Tapscript signature-operation budget.  The machine state keeps the budget
\* left; it depends on the length of the whole witness, hence of the whole
\* program.  In res it is stored relative to the full budget of the program
\* so far (0 = nothing consumed), which is what a longer program inherits.
TapBudget(ini, p) == 50 + TapWitSize(ini, ScriptLen(p))
Rel(t, ini, p, s) == IF Mode(t) = "t" /\ s.err = "" THEN [s EXCEPT !.bud = @ - TapBudget(ini, p)] ELSE s
Abs_(t, ini, p, s) == IF Mode(t) = "t" THEN [s EXCEPT !.bud = @ + TapBudget(ini, p)] ELSE s

\* the empty program
Start(t, ini) ==
    LET pre == Pre(t, ini, <<>>)
        s0 == VM0(ini, 0) IN
    IF pre # "" THEN Skip(pre) ELSE Out("run", s0, Fin(t, ini, <<>>, s0))

\* one more token after state s
Step(t, ini, p, s, tok) ==
    LET p2 == Append(p, tok)
        pre == Pre(t, ini, p2)
        s2 == Exec(Abs_(t, ini, p2, s), tok, Vm(t), p2) IN
    IF pre # "" THEN Skip(pre) ELSE Out("run", Rel(t, ini, p2, s2), Fin(t, ini, p2, EndOfScript(s2)))

Group(O) == { [cf |-> {q[1] : q \in {r \in O : r[2] = o}}, x |-> o.x, s |-> o.s, v |-> o.v, keep |-> o.keep]
              : o \in {q[2] : q \in O} }

Alive(g) == g.x = "run" /\ g.s.err = ""

-----------------------------------------------------------------------------
Init ==
    /\ init \in InitStacks
    /\ prog = <<>>
    /\ res = Group({<<t, Start(t, init)>> : t \in Configs})

Extend(tok) ==
    /\ Len(prog) < MaxLen
    /\ {g \in res : Alive(g)} # {}
    /\ (Len(prog) > 0 => ~prog[Len(prog)].tr)
    /\ prog' = Append(prog, tok)
    /\ init' = init
    /\ res' = Group(UNION { {<<t, Step(t, init, prog, g.s, tok)>> : t \in g.cf} : g \in {h \in res : Alive(h)} })

Next == \E tok \in Alpha : Extend(tok)

Spec == Init /\ [][Next]_vars

-----------------------------------------------------------------------------
(* the limits of the property as invariants of the reference interpreter   *)
Limits ==
    \A g \in res : g.s.err = "" =>
        /\ Len(g.s.st) + Len(g.s.alt) <= 1000
        /\ g.s.ops <= 201
        /\ \A i \in 1..Len(g.s.st) : g.s.st[i].n <= 520

\* every configuration is in exactly one group or was dropped with a failed ancestor
Partition ==
    \A g1, g2 \in res : g1 # g2 => g1.cf \cap g2.cf = {}
=============================================================================
