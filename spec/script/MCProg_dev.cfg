SPECIFICATION Spec
CONSTANTS
  MaxLen = 2
  AlphaName = "core"
  InitName = "empty"
  CfgName = "std"
  ScriptOf <- NoScript
INVARIANTS Limits Partition
