SPECIFICATION Spec
CONSTANTS
  Tier = "thorough"
  ScriptOf <- NoScript
INVARIANTS Bounded
