------------------------------- MODULE MCPump -------------------------------
(***************************************************************************)
(* C06.  The limits: long generated programs ("pumps") around every bound  *)
(* of the property - 201 counted operations (also in a branch that is not  *)
(* executed, also through the key count of CHECKMULTISIG), 1000 elements   *)
(* on stack + alt stack (also as the initial tapscript stack), 10 000      *)
(* bytes of script (scriptSig, scriptPubKey, witness script; not tapscript)*)
(* - each at the bound and one past it, in each mode and flag set.         *)
(*                                                                         *)
(* One state per (pump, configuration): the reference interpreter runs the *)
(* whole program (RunCount) and the state records how many tokens execute  *)
(* successfully, the verdict, and the final stack depth / top elements.    *)
(* Programs and initial stacks are kept run-length encoded                 *)
(* << <<token, count>>, ... >> so that states stay small.                  *)
(***************************************************************************)
EXTENDS ScriptModes

CONSTANT Tier
VARIABLES pump, out
vars == <<pump, out>>

NoScript(name) == <<>>

\* initial stacks: << <<element, count>>, ... >>
RECURSIVE Expand(_)
Expand(rle) == IF Len(rle) = 0 THEN <<>>
               ELSE [i \in 1..rle[1][2] |-> rle[1][1]] \o Expand(Tail(rle))
NE(e, k) == <<e, k>>

\* run-length items: << <<tokens>>, count >>
N(t, k) == << <<t>>, k >>
NS(seq, k) == <<seq, k>>
NOP == Op("OP_NOP")
ONE == OpN(1)
Fill2 == <<Push(EBig520), Op("OP_DROP")>>
NestOpen == <<OpN(1), Op("OP_IF")>>

\* twenty keys then the count, for CHECKMULTISIG
Keys20 == <<N(Push(K1c), 20), N(Push(NumElem(20)), 1)>>

Pumps ==
    {
    \* counted operations at 200 / 201 / 202
    [name |-> "ops200", init |-> <<>>, prog |-> <<N(ONE, 1), N(NOP, 200)>>],
    [name |-> "ops201", init |-> <<>>, prog |-> <<N(ONE, 1), N(NOP, 201)>>],
    [name |-> "ops202", init |-> <<>>, prog |-> <<N(ONE, 1), N(NOP, 202)>>],
    \* the same inside a branch that is not executed (IF and ENDIF count too)
    [name |-> "ops-skipped199", init |-> <<>>, prog |-> <<N(ONE, 1), N(Op("OP_0"), 1), N(Op("OP_IF"), 1), N(NOP, 199), N(Op("OP_ENDIF"), 1)>>],
    [name |-> "ops-skipped200", init |-> <<>>, prog |-> <<N(ONE, 1), N(Op("OP_0"), 1), N(Op("OP_IF"), 1), N(NOP, 200), N(Op("OP_ENDIF"), 1)>>],
    \* pushes do not count, OP_RESERVED (not executed) does not count
    [name |-> "pushes-free", init |-> <<>>, prog |-> <<N(ONE, 1), N(NOP, 201), N(Op("OP_0"), 3), N(ONE, 1)>>],
    [name |-> "ops-reserved", init |-> <<>>, prog |-> <<N(ONE, 1), N(Op("OP_0"), 1), N(Op("OP_IF"), 1), N(Op("OP_RESERVED"), 50), N(NOP, 198), N(Op("OP_ENDIF"), 1)>>],
    \* CHECKMULTISIG adds its key count: 180 + 1 + 20 = 201, 181 + 1 + 20 = 202
    [name |-> "multisig-ops201", init |-> <<>>, prog |-> <<N(NOP, 180), N(Op("OP_0"), 2)>> \o Keys20 \o <<N(Op("OP_CHECKMULTISIG"), 1)>>],
    [name |-> "multisig-ops202", init |-> <<>>, prog |-> <<N(NOP, 181), N(Op("OP_0"), 2)>> \o Keys20 \o <<N(Op("OP_CHECKMULTISIG"), 1)>>],
    \* stack depth 999 / 1000 / 1001
    [name |-> "depth999",  init |-> <<>>, prog |-> <<N(ONE, 999)>>],
    [name |-> "depth1000", init |-> <<>>, prog |-> <<N(ONE, 1000)>>],
    [name |-> "depth1001", init |-> <<>>, prog |-> <<N(ONE, 1001)>>],
    \* 1000 then cleaned up (tapscript has no operation limit; the others stop at 201 operations)
    [name |-> "depth1000-clean", init |-> <<>>, prog |-> <<N(ONE, 1000), N(Op("OP_2DROP"), 499), N(Op("OP_DROP"), 1)>>],
    \* stack + alt stack: 900 + 100, 900 + 101
    [name |-> "alt1000", init |-> <<>>, prog |-> <<N(ONE, 900)>> \o <<N(Op("OP_DUP"), 100), N(Op("OP_TOALTSTACK"), 100)>>],
    [name |-> "alt1001", init |-> <<>>, prog |-> <<N(ONE, 901)>> \o <<N(Op("OP_DUP"), 100), N(Op("OP_TOALTSTACK"), 100)>>],
    [name |-> "alt-interleaved1001", init |-> <<>>, prog |-> <<N(ONE, 950), N(Op("OP_TOALTSTACK"), 50), N(ONE, 50), N(Op("OP_DEPTH"), 1), N(Op("OP_DEPTH"), 1)>>],
    \* a deep initial stack (witness): 1000 and 1001 elements
    [name |-> "init1000", init |-> <<NE(E1, 1000)>>, prog |-> <<N(NOP, 1)>>],
    [name |-> "init1001", init |-> <<NE(E1, 1001)>>, prog |-> <<N(NOP, 1)>>],
    [name |-> "init1000-drop", init |-> <<NE(E1, 1000)>>, prog |-> <<N(Op("OP_2DROP"), 499), N(Op("OP_DROP"), 1)>>],
    \* script size 10 000 / 10 001: 19 x (520-byte push + DROP) = 9956, then NOPs, then OP_1
    [name |-> "size10000", init |-> <<>>, prog |-> <<N(Push(EBig520), 1), N(Op("OP_DROP"), 1)>> \o <<NS(Fill2, 18)>> \o <<N(NOP, 43), N(ONE, 1)>>],
    [name |-> "size10001", init |-> <<>>, prog |-> <<N(Push(EBig520), 1), N(Op("OP_DROP"), 1)>> \o <<NS(Fill2, 18)>> \o <<N(NOP, 44), N(ONE, 1)>>],
    \* scriptSig size 10 000 / 10 001 (bare mode): 19 x 523 = 9937, + 63 / 64
    [name |-> "sigsize10000", init |-> <<NE(EBig520, 19), NE(Fill(5, 62), 1)>>, prog |-> <<N(Op("OP_2DROP"), 10), N(ONE, 1)>>],
    [name |-> "sigsize10001", init |-> <<NE(EBig520, 19), NE(Fill(5, 63), 1)>>, prog |-> <<N(Op("OP_2DROP"), 10), N(ONE, 1)>>],
    \* PICK / ROLL at depth, numbers near the limits of DEPTH / SIZE
    [name |-> "pick-deep", init |-> <<>>, prog |-> <<N(OpN(2), 1), N(ONE, 997), N(Push(NumElem(997)), 1), N(Op("OP_PICK"), 1)>>],
    [name |-> "roll-deep", init |-> <<>>, prog |-> <<N(OpN(2), 1), N(ONE, 997), N(Push(NumElem(998)), 1), N(Op("OP_ROLL"), 1)>>],
    [name |-> "depth-number", init |-> <<>>, prog |-> <<N(ONE, 998), N(Op("OP_DEPTH"), 1), N(Op("OP_SIZE"), 1)>>],
    \* nested conditionals
    [name |-> "nest100", init |-> <<>>, prog |-> <<N(ONE, 1), NS(NestOpen, 66), N(Op("OP_ENDIF"), 66), N(ONE, 1)>>]
    }

RECURSIVE ExpandProg(_)
ExpandProg(rle) ==
    IF Len(rle) = 0 THEN <<>>
    ELSE LET one == rle[1][1]
             RECURSIVE Rep(_)
             Rep(k) == IF k = 0 THEN <<>> ELSE one \o Rep(k - 1)
         IN Rep(rle[1][2]) \o ExpandProg(Tail(rle))

\* run counting the tokens that execute successfully
RECURSIVE RunCount(_, _, _, _)
RunCount(s, i, c, script) ==
    IF i > Len(script) THEN [s |-> EndOfScript(s), n |-> i - 1]
    ELSE LET s2 == Exec(s, script[i], c, script) IN
         IF s2.err # "" THEN [s |-> s2, n |-> i - 1] ELSE RunCount(s2, i + 1, c, script)

TopOf(st) == SubSeq(st, IF Len(st) > 2 THEN Len(st) - 1 ELSE 1, Len(st))

Result(p, t) ==
    LET ini == Expand(p.init)
        prg == ExpandProg(p.prog)
        pre == Pre(t, ini, prg) IN
    IF pre # "" THEN [x |-> "skip", v |-> pre, n |-> 0, depth |-> 0, alt |-> 0, top |-> <<>>, err |-> ""]
    ELSE LET r == RunCount(VM0(ini, IF Mode(t) = "t" THEN 50 + TapWitSize(ini, ScriptLen(prg)) ELSE 0), 1, Vm(t), prg)
             f == Fin(t, ini, prg, r.s) IN
         [x |-> "run", v |-> f.v, n |-> r.n, depth |-> Len(r.s.st), alt |-> Len(r.s.alt), top |-> TopOf(r.s.st), err |-> r.s.err]

Configs == IF Tier = "quick" THEN {<<"b", "0", "A">>, <<"b", "S", "A">>, <<"w", "5", "A">>, <<"t", "6", "A">>}
           ELSE {<<"b", f, "A">> : f \in {"0", "S"}} \cup {<<"w", f, "A">> : f \in {"5", "S"}} \cup {<<"t", f, "A">> : f \in {"6", "S"}}

\* Three levels so that TLC's workers share the evaluation: root, one state
\* per pump, one state per (pump, configuration) with the result.
NoOut(x) == [x |-> x, v |-> "", n |-> 0, depth |-> 0, alt |-> 0, top |-> <<>>, err |-> ""]
Init == pump = [name |-> "", t |-> <<>>, init |-> <<>>, prog |-> <<>>] /\ out = NoOut("root")
Pick == /\ out.x = "root"
        /\ \E p \in Pumps : pump' = [name |-> p.name, t |-> <<>>, init |-> p.init, prog |-> p.prog]
        /\ out' = NoOut("pending")
Evaluate == /\ out.x = "pending"
            /\ \E t \in Configs :
                  /\ pump' = [pump EXCEPT !.t = t]
                  /\ out' = Result(pump, t)
Next == Pick \/ Evaluate
Spec == Init /\ [][Next]_vars

\* the reference interpreter itself never exceeds the bounds
Bounded == out.depth + out.alt <= 1000
=============================================================================
