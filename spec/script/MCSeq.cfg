SPECIFICATION Spec
CONSTANTS
  ScriptOf <- SeqScript
INVARIANTS Limits
