------------------------------- MODULE MCSeq --------------------------------
(***************************************************************************)
(* C06.  Sequencing scenarios: whole spends (scriptSig, scriptPubKey,      *)
(* witness) through ScriptSeq!VerifyScript under every flag set: P2PK(H),  *)
(* P2SH (push-only rule, clean stack, failing / empty / unparsable redeem  *)
(* scripts), native and nested P2WPKH / P2WSH (witness count and size      *)
(* rules, malleated scriptSig, MINIMALIF, compressed-key rule), witness    *)
(* programs of unknown version / length, pay-to-anchor, unexpected         *)
(* witness, taproot key path and script path (control block size and       *)
(* commitment, leaf version, OP_SUCCESS, annex, CHECKSIGADD, code          *)
(* separator position, signature-operation budget, tapscript MINIMALIF).   *)
(* One state per (scenario, flag set): the state holds the spend, the      *)
(* verdict and the machine state after every executed opcode.              *)
(***************************************************************************)
EXTENDS ScriptAlpha

VARIABLES scen, fs, result
vars == <<scen, fs, result>>

-----------------------------------------------------------------------------
(* scripts that travel as stack elements *)
TapKey == KeyElem("TAP", 32)
AnyTrunc == TruncPush(ENonMin1, "d")
Ops2(names) == [i \in 1..Len(names) |-> Op(names[i])]

RECURSIVE SeqScript(_)
SeqScript(name) ==
    CASE name = "ms12"   -> <<OpN(1), Push(K1c), Push(K2c), OpN(2), Op("OP_CHECKMULTISIG")>>
      [] name = "ms23"   -> <<OpN(2), Push(K1c), Push(K2c), Push(K3c), OpN(3), Op("OP_CHECKMULTISIG")>>
      [] name = "pk1"    -> <<Push(K1c), Op("OP_CHECKSIG")>>
      [] name = "pk1u"   -> <<Push(K1u), Op("OP_CHECKSIG")>>
      [] name = "true"   -> <<OpN(1)>>
      [] name = "false"  -> <<Op("OP_0")>>
      [] name = "empty"  -> <<>>
      [] name = "two"    -> <<OpN(1), OpN(1)>>
      [] name = "trunc"  -> <<OpN(1), AnyTrunc>>
      [] name = "if"     -> <<Op("OP_IF"), OpN(1), Op("OP_ELSE"), OpN(1), Op("OP_ENDIF")>>
      [] name = "nop1"   -> <<Op("OP_NOP1"), OpN(1)>>
      [] name = "csep"   -> <<Push(K1c), Op("OP_CHECKSIGVERIFY"), Op("OP_CODESEPARATOR"), Push(K1c), Op("OP_CHECKSIG")>>
      [] name = "wpkh1"  -> <<Op("OP_0"), Push(HashOf("hash160", K1c))>>
      [] name = "wpkh1u" -> <<Op("OP_0"), Push(HashOf("hash160", K1u))>>
      [] name = "wsh-pk1" -> <<Op("OP_0"), Push(HashOf("sha256", ScrElem("pk1", ScriptLen(SeqScript("pk1")))))>>
      [] name = "w0-25"  -> <<Op("OP_0"), Push(Raw([i \in 1..25 |-> 7]))>>
      [] name = "w2-32"  -> <<OpN(2), Push(EH32)>>
      [] name = "v1tap"  -> <<OpN(1), Push(TapKey)>>
      [] name = "anchor" -> <<OpN(1), Push(Raw(<<78, 115>>))>>
      \* a key that passes the encoding rules but is not on the curve: CHECKSIG is false, NOT makes it true
      [] name = "pkoff-not" -> <<Push(K1offc), Op("OP_CHECKSIG"), Op("OP_NOT")>>
      [] name = "wsh-pkoff-not" -> <<Op("OP_0"), Push(HashOf("sha256", ScrElem("pkoff-not", ScriptLen(SeqScript("pkoff-not")))))>>
      \* tapscripts
      [] name = "tpk1"   -> <<Push(K1x), Op("OP_CHECKSIG")>>
      [] name = "tadd"   -> <<Push(K1x), Op("OP_CHECKSIG"), Push(K2x), Op("OP_CHECKSIGADD"), Push(KeyElem("K3", 32)), Op("OP_CHECKSIGADD"),
                              OpN(2), Op("OP_NUMEQUAL")>>
      [] name = "tsucc"  -> <<Op("OP_RETURN"), Op("OP_RESERVED")>>
      [] name = "tsucc1" -> <<Op("OP_RESERVED")>>
      [] name = "tsucc-trunc" -> <<OpUnknown(187), AnyTrunc>>
      [] name = "ttrunc" -> <<OpN(1), AnyTrunc>>
      [] name = "tmulti" -> <<Op("OP_0"), Op("OP_0"), Op("OP_0"), Op("OP_CHECKMULTISIG")>>
      [] name = "tcsep"  -> <<Push(K1x), Op("OP_CHECKSIGVERIFY"), Op("OP_CODESEPARATOR"), Push(K1x), Op("OP_CHECKSIG")>>
      [] name = "tbud1"  -> <<Op("OP_2DUP"), Op("OP_CHECKSIGVERIFY"), Op("OP_2DROP"), OpN(1)>>
      [] name = "tbud2"  -> <<Op("OP_2DUP"), Op("OP_CHECKSIGVERIFY"), Op("OP_2DUP"), Op("OP_CHECKSIGVERIFY"), Op("OP_2DROP"), OpN(1)>>
      [] name = "tbud3"  -> <<Op("OP_2DUP"), Op("OP_CHECKSIGVERIFY"), Op("OP_2DUP"), Op("OP_CHECKSIGVERIFY"),
                              Op("OP_2DUP"), Op("OP_CHECKSIGVERIFY"), Op("OP_2DROP"), OpN(1)>>
      [] name = "tnops"  -> [i \in 1..250 |-> Op("OP_NOP")] \o <<OpN(1)>>
      \* k counted operations, then OP_1 (the 201 limit is per script)
      [] name = "ops200" -> [i \in 1..200 |-> Op("OP_NOP")] \o <<OpN(1)>>
      [] name = "ops201" -> [i \in 1..201 |-> Op("OP_NOP")] \o <<OpN(1)>>
      [] name = "ops202" -> [i \in 1..202 |-> Op("OP_NOP")] \o <<OpN(1)>>
      \* 197 / 198 + CHECKMULTISIG + its 3 keys = 201 / 202 (0 of 3 succeeds)
      [] name = "opsms201" -> [i \in 1..197 |-> Op("OP_NOP")] \o <<Op("OP_0"), Op("OP_0"), Push(K1c), Push(K2c), Push(K3c), OpN(3), Op("OP_CHECKMULTISIG")>>
      [] name = "opsms202" -> [i \in 1..198 |-> Op("OP_NOP")] \o <<Op("OP_0"), Op("OP_0"), Push(K1c), Push(K2c), Push(K3c), OpN(3), Op("OP_CHECKMULTISIG")>>
      [] name = "wsh-ops200" -> <<Op("OP_0"), Push(HashOf("sha256", ScrElem("ops200", ScriptLen(SeqScript("ops200")))))>>
      [] name = "wsh-ops201" -> <<Op("OP_0"), Push(HashOf("sha256", ScrElem("ops201", ScriptLen(SeqScript("ops201")))))>>
      [] name = "wsh-ops202" -> <<Op("OP_0"), Push(HashOf("sha256", ScrElem("ops202", ScriptLen(SeqScript("ops202")))))>>
      [] name = "wsh-opsms201" -> <<Op("OP_0"), Push(HashOf("sha256", ScrElem("opsms201", ScriptLen(SeqScript("opsms201")))))>>

ScriptNames == {"ms12", "ms23", "pk1", "pk1u", "true", "false", "empty", "two", "trunc", "if", "nop1", "csep", "wpkh1", "wpkh1u",
                "wsh-pk1", "w0-25", "w2-32", "v1tap", "anchor", "tpk1", "tadd", "tsucc", "tsucc-trunc", "ttrunc", "tmulti", "tcsep",
                "tbud1", "tbud2", "tbud3", "tnops", "ops200", "ops201", "ops202", "opsms201", "opsms202",
                "wsh-ops200", "wsh-ops201", "wsh-ops202", "wsh-opsms201", "tsucc1", "pkoff-not", "wsh-pkoff-not"}
\* the binder reads the scripts from TLC's output
ASSUME PrintT(<<"SCRIPTS", [n \in ScriptNames |-> SeqScript(n)]>>)

\* (the empty script is the empty element)
Scr(name) == IF name = "empty" THEN Empty ELSE ScrElem(name, ScriptLen(SeqScript(name)))
Ctrl(name, leafver, variant, len) == [t |-> "ctrl", b |-> <<leafver, IF variant = 0 THEN 1 ELSE 0, variant>>, n |-> len, k |-> name, r |-> <<>>]
\* the tree has two leaves: the proof is one node long
GoodCtrl(name) == Ctrl(name, 192, 0, 65)

P2PKH(k)     == <<Op("OP_DUP"), Op("OP_HASH160"), Push(HashOf("hash160", k)), Op("OP_EQUALVERIFY"), Op("OP_CHECKSIG")>>
P2SHof(name) == <<Op("OP_HASH160"), Push(HashOf("hash160", Scr(name))), Op("OP_EQUAL")>>
P2WSHof(name) == <<Op("OP_0"), Push(HashOf("sha256", Scr(name)))>>
P2WPKHof(k)  == <<Op("OP_0"), Push(HashOf("hash160", k))>>
P2TR         == <<OpN(1), Push(TapKey)>>
Pushes(es)   == [i \in 1..Len(es) |-> MinPush(es[i])]

Annex == Raw(<<80, 1, 2, 3, 4, 5, 6, 7, 8, 9>>)
S0(k) == SigBy(k, 0)
S1(k) == SigBy(k, 1)
TS(k) == SigElem(k, 0, 64, 2, 0)           \* tapscript signature
TSA(k) == SigElem(k, 0, 64, 5, 0)          \* tapscript signature committing to the annex
KP == SigElem("TAP", 0, 64, 3, 0)          \* key path signature

\* [name, sig, pk, wit, signs]: signs names the script the signatures commit to
\* ("pk" = the scriptPubKey, "wpkh" = the implied P2WPKH script, else a script name)
Sc(name, sig, pk, wit, signs) == [name |-> name, sig |-> sig, pk |-> pk, wit |-> wit, signs |-> signs]

\* taproot script path: commitment of the control block x kind of leaf script.
\* variant 0 committed; 1 wrong merkle path; 2 wrong parity bit; 5 wrong internal
\* key; 7 wrong leaf version in the control block (the tree commits to 0xc0)
CommitVariants == {0, 1, 2, 5, 7}
LeafKinds == {"true", "false", "tsucc", "tsucc1"}
CommitCtrl(kind, v) == Ctrl(kind, IF v = 7 THEN 194 ELSE 192, v, 65)
CommitScenarios == { Sc("tr-commit-" \o kind \o "-v" \o ToString(v), <<>>, P2TR, <<Scr(kind), CommitCtrl(kind, v)>>, "pk")
                     : kind \in LeafKinds, v \in CommitVariants }

Scenarios == CommitScenarios \cup {
    \* --- pre-segwit templates
    Sc("p2pkh", Pushes(<<S0("K1"), K1c>>), P2PKH(K1c), <<>>, "pk"),
    Sc("p2pkh-wrongkey", Pushes(<<S0("K2"), K2c>>), P2PKH(K1c), <<>>, "pk"),
    Sc("p2pkh-wrongsig", Pushes(<<S0("K2"), K1c>>), P2PKH(K1c), <<>>, "pk"),
    Sc("p2pkh-uncompressed", Pushes(<<S0("K1"), K1u>>), P2PKH(K1u), <<>>, "pk"),
    Sc("p2pkh-hybrid", Pushes(<<S0("K1"), K1h>>), P2PKH(K1h), <<>>, "pk"),
    Sc("p2pk", Pushes(<<S0("K1")>>), <<Push(K1c), Op("OP_CHECKSIG")>>, <<>>, "pk"),
    Sc("p2pk-highs", Pushes(<<SigElem("K1", 1, 1, 0, 0)>>), <<Push(K1c), Op("OP_CHECKSIG")>>, <<>>, "pk"),
    Sc("p2pk-ber", Pushes(<<SigElem("K1", 1, 2, 0, 0)>>), <<Push(K1c), Op("OP_CHECKSIG")>>, <<>>, "pk"),
    Sc("p2pk-hashtype", Pushes(<<SigElem("K1", 4, 0, 0, 0)>>), <<Push(K1c), Op("OP_CHECKSIG")>>, <<>>, "pk"),
    Sc("p2pk-witness-unexpected", Pushes(<<S0("K1")>>), <<Push(K1c), Op("OP_CHECKSIG")>>, <<E1>>, "pk"),
    Sc("bare-multisig", Pushes(<<E0, S0("K2")>>), SeqScript("ms12"), <<>>, "pk"),
    Sc("bare-multisig-dummy", Pushes(<<E1, S0("K2")>>), SeqScript("ms12"), <<>>, "pk"),
    Sc("sig-not-pushonly", <<OpN(1), Op("OP_NOP")>>, <<OpN(1), Op("OP_EQUAL")>>, <<>>, "pk"),
    Sc("sig-leaves-two", Pushes(<<E1, E1>>), <<Op("OP_NOP")>>, <<>>, "pk"),
    Sc("empty-pk", Pushes(<<E1>>), <<>>, <<>>, "pk"),
    Sc("empty-both", <<>>, <<>>, <<>>, "pk"),
    Sc("alt-does-not-carry", <<OpN(1), Op("OP_TOALTSTACK")>>, <<Op("OP_FROMALTSTACK")>>, <<>>, "pk"),
    Sc("if-straddles", <<OpN(1), Op("OP_IF")>>, <<OpN(1), Op("OP_ENDIF")>>, <<>>, "pk"),
    Sc("sig-csep", Pushes(<<SigElem("K1", 1, 0, 0, 3), S0("K1")>>), SeqScript("csep"), <<>>, "pk"),
    Sc("sig-csep-swapped", Pushes(<<S0("K1"), SigElem("K1", 1, 0, 0, 3)>>), SeqScript("csep"), <<>>, "pk"),
    \* --- the 201-operation limit is counted per script: bare, P2SH, P2WSH, P2SH-P2WSH (tapscript: no limit)
    Sc("ops-bare-200", <<>>, SeqScript("ops200"), <<>>, "pk"),
    Sc("ops-bare-201", <<>>, SeqScript("ops201"), <<>>, "pk"),
    Sc("ops-bare-202", <<>>, SeqScript("ops202"), <<>>, "pk"),
    Sc("ops-bare-after-sig-ops", <<OpN(1), Op("OP_NOP"), Op("OP_NOP"), Op("OP_DROP")>>, SeqScript("ops201"), <<>>, "pk"),
    Sc("ops-p2sh-200", Pushes(<<Scr("ops200")>>), P2SHof("ops200"), <<>>, "pk"),
    Sc("ops-p2sh-201", Pushes(<<Scr("ops201")>>), P2SHof("ops201"), <<>>, "pk"),
    Sc("ops-p2sh-202", Pushes(<<Scr("ops202")>>), P2SHof("ops202"), <<>>, "pk"),
    Sc("ops-p2sh-multisig-201", Pushes(<<Scr("opsms201")>>), P2SHof("opsms201"), <<>>, "pk"),
    Sc("ops-p2sh-multisig-202", Pushes(<<Scr("opsms202")>>), P2SHof("opsms202"), <<>>, "pk"),
    Sc("ops-p2wsh-200", <<>>, P2WSHof("ops200"), <<Scr("ops200")>>, "pk"),
    Sc("ops-p2wsh-201", <<>>, P2WSHof("ops201"), <<Scr("ops201")>>, "pk"),
    Sc("ops-p2wsh-202", <<>>, P2WSHof("ops202"), <<Scr("ops202")>>, "pk"),
    Sc("ops-p2wsh-multisig-201", <<>>, P2WSHof("opsms201"), <<Scr("opsms201")>>, "pk"),
    Sc("ops-p2wsh-multisig-202", <<>>, P2WSHof("opsms202"), <<Scr("opsms202")>>, "pk"),
    Sc("ops-p2sh-p2wsh-200", <<Push(Scr("wsh-ops200"))>>, P2SHof("wsh-ops200"), <<Scr("ops200")>>, "pk"),
    Sc("ops-p2sh-p2wsh-201", <<Push(Scr("wsh-ops201"))>>, P2SHof("wsh-ops201"), <<Scr("ops201")>>, "pk"),
    Sc("ops-p2sh-p2wsh-202", <<Push(Scr("wsh-ops202"))>>, P2SHof("wsh-ops202"), <<Scr("ops202")>>, "pk"),
    Sc("ops-p2sh-p2wsh-multisig-201", <<Push(Scr("wsh-opsms201"))>>, P2SHof("wsh-opsms201"), <<Scr("opsms201")>>, "pk"),
    Sc("ops-tap-200", <<>>, P2TR, <<Scr("ops200"), GoodCtrl("ops200")>>, "pk"),
    Sc("ops-tap-201", <<>>, P2TR, <<Scr("ops201"), GoodCtrl("ops201")>>, "pk"),
    Sc("ops-tap-202", <<>>, P2TR, <<Scr("ops202"), GoodCtrl("ops202")>>, "pk"),
    \* --- undecodable key: the signature check is false (an error only through NULLFAIL with a non-empty signature)
    Sc("undecodable-key-bare", Pushes(<<S0("K1")>>), SeqScript("pkoff-not"), <<>>, "pk"),
    Sc("undecodable-key-bare-emptysig", Pushes(<<E0>>), SeqScript("pkoff-not"), <<>>, "pk"),
    Sc("undecodable-key-p2sh", Pushes(<<S0("K1"), Scr("pkoff-not")>>), P2SHof("pkoff-not"), <<>>, "pkoff-not"),
    Sc("undecodable-key-p2sh-emptysig", Pushes(<<E0, Scr("pkoff-not")>>), P2SHof("pkoff-not"), <<>>, "pkoff-not"),
    Sc("undecodable-key-p2wsh", <<>>, P2WSHof("pkoff-not"), <<S1("K1"), Scr("pkoff-not")>>, "pkoff-not"),
    Sc("undecodable-key-p2wsh-emptysig", <<>>, P2WSHof("pkoff-not"), <<E0, Scr("pkoff-not")>>, "pkoff-not"),
    Sc("undecodable-key-p2sh-p2wsh", <<Push(Scr("wsh-pkoff-not"))>>, P2SHof("wsh-pkoff-not"), <<S1("K1"), Scr("pkoff-not")>>, "pkoff-not"),
    Sc("undecodable-sig-p2wsh", <<>>, P2WSHof("pk1"), <<SigElem("K1", 1, 30, 1, 0), Scr("pk1")>>, "pk1"),
    \* --- P2SH
    Sc("p2sh-multisig", Pushes(<<E0, S0("K1"), Scr("ms12")>>), P2SHof("ms12"), <<>>, "ms12"),
    Sc("p2sh-multisig23", Pushes(<<E0, S0("K1"), S0("K3"), Scr("ms23")>>), P2SHof("ms23"), <<>>, "ms23"),
    Sc("p2sh-multisig23-order", Pushes(<<E0, S0("K3"), S0("K1"), Scr("ms23")>>), P2SHof("ms23"), <<>>, "ms23"),
    Sc("p2sh-multisig-nosig", Pushes(<<E0, E0, Scr("ms12")>>), P2SHof("ms12"), <<>>, "ms12"),
    Sc("p2sh-wrong-script", Pushes(<<E0, S0("K1"), Scr("pk1")>>), P2SHof("ms12"), <<>>, "ms12"),
    Sc("p2sh-not-pushonly", <<Op("OP_0"), Op("OP_NOP")>> \o Pushes(<<S0("K1"), Scr("ms12")>>), P2SHof("ms12"), <<>>, "ms12"),
    Sc("p2sh-reserved-in-sig", <<Op("OP_0"), Op("OP_IF"), Op("OP_RESERVED"), Op("OP_ENDIF")>> \o Pushes(<<Scr("true")>>), P2SHof("true"), <<>>, "pk"),
    Sc("p2sh-true", Pushes(<<Scr("true")>>), P2SHof("true"), <<>>, "pk"),
    Sc("p2sh-true-extra", Pushes(<<E1, Scr("true")>>), P2SHof("true"), <<>>, "pk"),
    Sc("p2sh-false", Pushes(<<Scr("false")>>), P2SHof("false"), <<>>, "pk"),
    Sc("p2sh-empty", Pushes(<<E1, Scr("empty")>>), P2SHof("empty"), <<>>, "pk"),
    Sc("p2sh-empty-nothing", Pushes(<<Scr("empty")>>), P2SHof("empty"), <<>>, "pk"),
    Sc("p2sh-trunc", Pushes(<<Scr("trunc")>>), P2SHof("trunc"), <<>>, "pk"),
    Sc("p2sh-nop1", Pushes(<<Scr("nop1")>>), P2SHof("nop1"), <<>>, "pk"),
    Sc("p2sh-witness-unexpected", Pushes(<<Scr("true")>>), P2SHof("true"), <<E1>>, "pk"),
    Sc("p2sh-pk1", Pushes(<<S0("K1"), Scr("pk1")>>), P2SHof("pk1"), <<>>, "pk1"),
    \* --- native segwit v0
    Sc("p2wpkh", <<>>, P2WPKHof(K1c), <<S1("K1"), K1c>>, "wpkh"),
    Sc("p2wpkh-uncompressed", <<>>, P2WPKHof(K1u), <<S1("K1"), K1u>>, "wpkh"),
    Sc("p2wpkh-wrongkey", <<>>, P2WPKHof(K1c), <<S1("K2"), K2c>>, "wpkh"),
    Sc("p2wpkh-basesig", <<>>, P2WPKHof(K1c), <<S0("K1"), K1c>>, "wpkh"),
    Sc("p2wpkh-one-item", <<>>, P2WPKHof(K1c), <<K1c>>, "wpkh"),
    Sc("p2wpkh-three-items", <<>>, P2WPKHof(K1c), <<E0, S1("K1"), K1c>>, "wpkh"),
    Sc("p2wpkh-no-witness", <<>>, P2WPKHof(K1c), <<>>, "wpkh"),
    Sc("p2wpkh-malleated", <<Op("OP_0")>>, P2WPKHof(K1c), <<S1("K1"), K1c>>, "wpkh"),
    Sc("p2wpkh-emptysig-nullfail", <<>>, P2WPKHof(K1c), <<E0, K1c>>, "wpkh"),
    Sc("p2wsh-multisig", <<>>, P2WSHof("ms12"), <<E0, S1("K2"), Scr("ms12")>>, "ms12"),
    Sc("p2wsh-multisig-dummy", <<>>, P2WSHof("ms12"), <<E1, S1("K2"), Scr("ms12")>>, "ms12"),
    Sc("p2wsh-pk1u", <<>>, P2WSHof("pk1u"), <<S1("K1"), Scr("pk1u")>>, "pk1u"),
    Sc("p2wsh-mismatch", <<>>, P2WSHof("ms12"), <<E0, S1("K2"), Scr("pk1")>>, "ms12"),
    Sc("p2wsh-no-witness", <<>>, P2WSHof("true"), <<>>, "pk"),
    Sc("p2wsh-true", <<>>, P2WSHof("true"), <<Scr("true")>>, "pk"),
    Sc("p2wsh-true-extra", <<>>, P2WSHof("true"), <<E1, Scr("true")>>, "pk"),
    Sc("p2wsh-two", <<>>, P2WSHof("two"), <<Scr("two")>>, "pk"),
    Sc("p2wsh-false", <<>>, P2WSHof("false"), <<Scr("false")>>, "pk"),
    Sc("p2wsh-empty", <<>>, P2WSHof("empty"), <<E1, Scr("empty")>>, "pk"),
    Sc("p2wsh-trunc", <<>>, P2WSHof("trunc"), <<Scr("trunc")>>, "pk"),
    Sc("p2wsh-big-element", <<>>, P2WSHof("true"), <<EBig521, Scr("true")>>, "pk"),
    Sc("p2wsh-nop1", <<>>, P2WSHof("nop1"), <<Scr("nop1")>>, "pk"),
    Sc("p2wsh-if-minimal", <<>>, P2WSHof("if"), <<E1, Scr("if")>>, "pk"),
    Sc("p2wsh-if-two", <<>>, P2WSHof("if"), <<E2, Scr("if")>>, "pk"),
    Sc("p2wsh-if-empty", <<>>, P2WSHof("if"), <<E0, Scr("if")>>, "pk"),
    Sc("p2wsh-if-zero-byte", <<>>, P2WSHof("if"), <<EZero1, Scr("if")>>, "pk"),
    Sc("p2wsh-malleated", <<OpN(1)>>, P2WSHof("true"), <<Scr("true")>>, "pk"),
    Sc("p2wsh-csep", <<>>, P2WSHof("csep"), <<SigElem("K1", 1, 0, 1, 3), S1("K1"), Scr("csep")>>, "csep"),
    Sc("w0-wrong-length", <<>>, SeqScript("w0-25"), <<E1>>, "pk"),
    \* --- nested in P2SH
    Sc("p2sh-p2wpkh", <<Push(Scr("wpkh1"))>>, P2SHof("wpkh1"), <<S1("K1"), K1c>>, "wpkh"),
    Sc("p2sh-p2wpkh-uncompressed", <<Push(Scr("wpkh1u"))>>, P2SHof("wpkh1u"), <<S1("K1"), K1u>>, "wpkh"),
    Sc("p2sh-p2wpkh-extra-push", <<OpN(1), Push(Scr("wpkh1"))>>, P2SHof("wpkh1"), <<S1("K1"), K1c>>, "wpkh"),
    Sc("p2sh-p2wpkh-pushdata1", <<PushEnc(Scr("wpkh1"), "p1")>>, P2SHof("wpkh1"), <<S1("K1"), K1c>>, "wpkh"),
    Sc("p2sh-p2wpkh-no-witness", <<Push(Scr("wpkh1"))>>, P2SHof("wpkh1"), <<>>, "wpkh"),
    Sc("p2sh-p2wsh", <<Push(Scr("wsh-pk1"))>>, P2SHof("wsh-pk1"), <<S1("K1"), Scr("pk1")>>, "pk1"),
    Sc("p2sh-p2wsh-badsig", <<Push(Scr("wsh-pk1"))>>, P2SHof("wsh-pk1"), <<S0("K1"), Scr("pk1")>>, "pk1"),
    Sc("p2sh-w0-wrong-length", <<Push(Scr("w0-25"))>>, P2SHof("w0-25"), <<E1>>, "pk"),
    Sc("p2sh-unknown-version", <<Push(Scr("w2-32"))>>, P2SHof("w2-32"), <<E1>>, "pk"),
    Sc("p2sh-v1-not-taproot", <<Push(Scr("v1tap"))>>, P2SHof("v1tap"), <<E1>>, "pk"),
    Sc("p2sh-anchor", <<Push(Scr("anchor"))>>, P2SHof("anchor"), <<>>, "pk"),
    \* --- unknown programs
    Sc("unknown-version", <<>>, SeqScript("w2-32"), <<>>, "pk"),
    Sc("unknown-version-witness", <<>>, SeqScript("w2-32"), <<E1, E0>>, "pk"),
    Sc("unknown-version-malleated", <<OpN(1)>>, SeqScript("w2-32"), <<>>, "pk"),
    Sc("v16", <<>>, <<OpN(16), Push(E500)>>, <<>>, "pk"),
    Sc("v1-20-bytes", <<>>, <<OpN(1), Push(EH20)>>, <<E1>>, "pk"),
    Sc("v1-zero-program", <<>>, <<OpN(1), Push(Raw([i \in 1..32 |-> 0]))>>, <<>>, "pk"),
    Sc("unknown-version-40-bytes", <<>>, <<OpN(3), Push(EF40)>>, <<>>, "pk"),
    Sc("unknown-version-2-bytes", <<>>, <<OpN(3), Push(E500)>>, <<>>, "pk"),
    Sc("w0-2-bytes", <<>>, <<Op("OP_0"), Push(E500)>>, <<E1>>, "pk"),
    Sc("w0-40-bytes", <<>>, <<Op("OP_0"), Push(EF40)>>, <<E1>>, "pk"),
    Sc("w0-2-bytes-no-witness", <<>>, <<Op("OP_0"), Push(E500)>>, <<>>, "pk"),
    Sc("w0-40-bytes-no-witness", <<>>, <<Op("OP_0"), Push(EF40)>>, <<>>, "pk"),
    Sc("not-a-program-1-byte", <<>>, <<OpN(3), Push(E17)>>, <<>>, "pk"),
    Sc("anchor", <<>>, SeqScript("anchor"), <<>>, "pk"),
    Sc("anchor-witness", <<>>, SeqScript("anchor"), <<E1>>, "pk"),
    Sc("anchor-malleated", <<OpN(1)>>, SeqScript("anchor"), <<>>, "pk"),
    Sc("not-a-program-41", <<>>, <<OpN(1), Push(Fill(5, 41))>>, <<>>, "pk"),
    Sc("not-a-program-pushdata", <<>>, <<OpN(1), PushEnc(EH32, "p1")>>, <<>>, "pk"),
    Sc("not-a-program-1negate", <<>>, <<Op("OP_1NEGATE"), Push(EH32)>>, <<>>, "pk"),
    \* --- taproot
    Sc("tr-keypath", <<>>, P2TR, <<KP>>, "pk"),
    Sc("tr-keypath-all", <<>>, P2TR, <<SigElem("TAP", 1, 64, 3, 0)>>, "pk"),
    Sc("tr-keypath-hashtype", <<>>, P2TR, <<SigElem("TAP", 4, 64, 3, 0)>>, "pk"),
    Sc("tr-keypath-wrongkey", <<>>, P2TR, <<SigElem("K1", 0, 64, 3, 0)>>, "pk"),
    Sc("tr-keypath-tapscript-sig", <<>>, P2TR, <<SigElem("TAP", 0, 64, 2, 0)>>, "pk"),
    Sc("tr-keypath-ecdsa", <<>>, P2TR, <<S1("K1")>>, "pk"),
    Sc("tr-keypath-empty-sig", <<>>, P2TR, <<E0>>, "pk"),
    Sc("tr-keypath-annex", <<>>, P2TR, <<KP, Annex>>, "pk"),
    Sc("tr-no-witness", <<>>, P2TR, <<>>, "pk"),
    Sc("tr-malleated", <<OpN(1)>>, P2TR, <<KP>>, "pk"),
    Sc("tr-script", <<>>, P2TR, <<TS("K1"), Scr("tpk1"), GoodCtrl("tpk1")>>, "tpk1"),
    Sc("tr-script-emptysig", <<>>, P2TR, <<E0, Scr("tpk1"), GoodCtrl("tpk1")>>, "tpk1"),
    Sc("tr-script-badsig", <<>>, P2TR, <<TS("K2"), Scr("tpk1"), GoodCtrl("tpk1")>>, "tpk1"),
    Sc("tr-script-keypath-sig", <<>>, P2TR, <<SigElem("K1", 0, 64, 3, 0), Scr("tpk1"), GoodCtrl("tpk1")>>, "tpk1"),
    Sc("tr-script-annex", <<>>, P2TR, <<TSA("K1"), Scr("tpk1"), GoodCtrl("tpk1"), Annex>>, "tpk1"),
    Sc("tr-script-annex-ignored-by-sig", <<>>, P2TR, <<TS("K1"), Scr("tpk1"), GoodCtrl("tpk1"), Annex>>, "tpk1"),
    Sc("tr-script-true", <<>>, P2TR, <<Scr("true"), GoodCtrl("true")>>, "pk"),
    Sc("tr-script-true-annex", <<>>, P2TR, <<Scr("true"), GoodCtrl("true"), Annex>>, "pk"),
    Sc("tr-script-two", <<>>, P2TR, <<Scr("two"), GoodCtrl("two")>>, "pk"),
    Sc("tr-script-extra", <<>>, P2TR, <<E1, Scr("true"), GoodCtrl("true")>>, "pk"),
    Sc("tr-script-false", <<>>, P2TR, <<Scr("false"), GoodCtrl("false")>>, "pk"),
    Sc("tr-script-empty", <<>>, P2TR, <<E1, Scr("empty"), GoodCtrl("empty")>>, "pk"),
    Sc("tr-ctrl-merkle", <<>>, P2TR, <<Scr("true"), Ctrl("true", 192, 1, 65)>>, "pk"),
    Sc("tr-ctrl-parity", <<>>, P2TR, <<Scr("true"), Ctrl("true", 192, 2, 65)>>, "pk"),
    Sc("tr-ctrl-64", <<>>, P2TR, <<Scr("true"), Ctrl("true", 192, 3, 64)>>, "pk"),
    Sc("tr-ctrl-32", <<>>, P2TR, <<Scr("true"), Ctrl("true", 192, 4, 32)>>, "pk"),
    Sc("tr-ctrl-33", <<>>, P2TR, <<Scr("true"), Ctrl("true", 192, 6, 33)>>, "pk"),
    Sc("tr-ctrl-internal-key", <<>>, P2TR, <<Scr("true"), Ctrl("true", 192, 5, 65)>>, "pk"),
    Sc("tr-ctrl-other-script", <<>>, P2TR, <<Scr("false"), GoodCtrl("true")>>, "pk"),
    Sc("tr-leafver-c2", <<>>, P2TR, <<Scr("false"), Ctrl("false", 194, 0, 65)>>, "pk"),
    Sc("tr-leafver-c2-success-op", <<>>, P2TR, <<Scr("tsucc"), Ctrl("tsucc", 194, 0, 65)>>, "pk"),
    Sc("tr-success", <<>>, P2TR, <<Scr("tsucc"), GoodCtrl("tsucc")>>, "pk"),
    Sc("tr-success-big-element", <<>>, P2TR, <<EBig521, Scr("tsucc"), GoodCtrl("tsucc")>>, "pk"),
    Sc("tr-success-then-trunc", <<>>, P2TR, <<Scr("tsucc-trunc"), GoodCtrl("tsucc-trunc")>>, "pk"),
    Sc("tr-trunc", <<>>, P2TR, <<Scr("ttrunc"), GoodCtrl("ttrunc")>>, "pk"),
    Sc("tr-big-element", <<>>, P2TR, <<EBig521, Scr("true"), GoodCtrl("true")>>, "pk"),
    Sc("tr-multisig-disabled", <<>>, P2TR, <<Scr("tmulti"), GoodCtrl("tmulti")>>, "pk"),
    Sc("tr-if-two", <<>>, P2TR, <<E2, Scr("if"), GoodCtrl("if")>>, "pk"),
    Sc("tr-if-one", <<>>, P2TR, <<E1, Scr("if"), GoodCtrl("if")>>, "pk"),
    Sc("tr-nops-250", <<>>, P2TR, <<Scr("tnops"), GoodCtrl("tnops")>>, "pk"),
    Sc("tr-add-2of3", <<>>, P2TR, <<TS("K3"), E0, TS("K1"), Scr("tadd"), GoodCtrl("tadd")>>, "tadd"),
    Sc("tr-add-3of3", <<>>, P2TR, <<TS("K3"), TS("K2"), TS("K1"), Scr("tadd"), GoodCtrl("tadd")>>, "tadd"),
    Sc("tr-add-1of3", <<>>, P2TR, <<E0, E0, TS("K1"), Scr("tadd"), GoodCtrl("tadd")>>, "tadd"),
    Sc("tr-add-badsig", <<>>, P2TR, <<TS("K1"), E0, TS("K1"), Scr("tadd"), GoodCtrl("tadd")>>, "tadd"),
    Sc("tr-csep", <<>>, P2TR, <<SigElem("K1", 0, 64, 2, 3), TS("K1"), Scr("tcsep"), GoodCtrl("tcsep")>>, "tcsep"),
    Sc("tr-csep-swapped", <<>>, P2TR, <<TS("K1"), SigElem("K1", 0, 64, 2, 3), Scr("tcsep"), GoodCtrl("tcsep")>>, "tcsep"),
    \* budget 50 + witness size: 128 / 130 / 171
    Sc("tr-budget-2", <<>>, P2TR, <<E1, E2, Scr("tbud2"), GoodCtrl("tbud2")>>, "pk"),
    Sc("tr-budget-3", <<>>, P2TR, <<E1, E2, Scr("tbud3"), GoodCtrl("tbud3")>>, "pk"),
    Sc("tr-budget-3-annex", <<>>, P2TR, <<E1, E2, Scr("tbud3"), GoodCtrl("tbud3"), Raw([i \in 1..40 |-> 80])>>, "pk"),
    \* exactly enough: 50 + 100 = 3 x 50; one byte less
    Sc("tr-budget-3-exact", <<>>, P2TR, <<E1, E2, Scr("tbud3"), GoodCtrl("tbud3"), Raw([i \in 1..19 |-> 80])>>, "pk"),
    Sc("tr-budget-3-short", <<>>, P2TR, <<E1, E2, Scr("tbud3"), GoodCtrl("tbud3"), Raw([i \in 1..18 |-> 80])>>, "pk"),
    Sc("tr-unknown-keytype", <<>>, P2TR, <<E1, K1c, Scr("tbud1"), GoodCtrl("tbud1")>>, "pk")
    }

ASSUME \A s1, s2 \in Scenarios : s1.name = s2.name => s1 = s2

\* Three levels so that TLC's workers share the evaluation: root, one state
\* per scenario, one state per (scenario, flag set) with the result.
NoScen == Sc("", <<>>, <<>>, <<>>, "")
Pending == [ok |-> FALSE, tr |-> <<>>, err |-> ""]
Init == scen = NoScen /\ fs = "" /\ result = Pending
Pick == /\ scen = NoScen
        /\ scen' \in Scenarios
        /\ UNCHANGED <<fs, result>>
Evaluate == /\ scen # NoScen /\ fs = ""
            /\ fs' \in FlagSetNames
            /\ scen' = scen
            /\ result' = VerifyScript(scen, [fl |-> FlagSet(fs'), tx |-> TxCtx("A")])
Next == Pick \/ Evaluate
Spec == Init /\ [][Next]_vars

\* the limits hold in every state of every trace
Limits == \A i \in 1..Len(result.tr) :
            /\ Len(result.tr[i].st) + Len(result.tr[i].alt) <= 1000
            /\ \A j \in 1..Len(result.tr[i].st) : result.tr[i].st[j].n <= 520
=============================================================================
