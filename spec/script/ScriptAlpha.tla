----------------------------- MODULE ScriptAlpha -----------------------------
(***************************************************************************)
(* C06.  Element and token alphabets, flag sets, transaction contexts      *)
(* shared by the model-checking modules.                                   *)
(***************************************************************************)
EXTENDS ScriptSeq

-----------------------------------------------------------------------------
(* flag sets: the ones block validation reaches along the soft-fork        *)
(* history (blockchain/validate.go checkConnectBlock) and the relay set    *)
(* txscript.StandardVerifyFlags                                            *)
F0 == {}
F1 == {"P2SH"}
F2 == F1 \cup {"DERSIG"}
F3 == F2 \cup {"CLTV"}
F4 == F3 \cup {"CSV"}
F5 == F4 \cup {"WITNESS", "NULLDUMMY"}
F6 == F5 \cup {"TAPROOT"}
FS == {"P2SH", "DERSIG", "STRICTENC", "MINIMALDATA", "NULLDUMMY", "DISCOURAGE_NOPS", "CLEANSTACK",
       "NULLFAIL", "CLTV", "CSV", "LOW_S", "WITNESS", "DISCOURAGE_UPGRADABLE_WITNESS_PROGRAM",
       "MINIMALIF", "WITNESS_PUBKEYTYPE", "TAPROOT", "DISCOURAGE_UPGRADABLE_TAPROOT_VERSION",
       "DISCOURAGE_OP_SUCCESS", "DISCOURAGE_UPGRADABLE_PUBKEYTYPE", "CONST_SCRIPTCODE"}
FlagSet(name) == CASE name = "0" -> F0 [] name = "1" -> F1 [] name = "2" -> F2 [] name = "3" -> F3
                   [] name = "4" -> F4 [] name = "5" -> F5 [] name = "6" -> F6 [] name = "S" -> FS
FlagSetNames == {"0", "1", "2", "3", "4", "5", "6", "S"}

(* transaction contexts [ver, lock, seq]; pairs are hi * 2^24 + lo *)
P(hi, lo) == [hi |-> hi, lo |-> lo]
\* The spending transaction: version, lock time, number of inputs (1 or 2), the
\* index of the input whose script runs (idx), that input's sequence (seq) and
\* the other input's sequence (oseq).  CHECKLOCKTIMEVERIFY and
\* CHECKSEQUENCEVERIFY look at the EXECUTING input's sequence only.
One(ver, lock, seq) == [ver |-> ver, lock |-> lock, seq |-> seq, nin |-> 1, idx |-> 0, oseq |-> P(0, 0)]
Two(ver, lock, idx, seq, oseq) == [ver |-> ver, lock |-> lock, seq |-> seq, nin |-> 2, idx |-> idx, oseq |-> oseq]
Final == P(255, 16777215)
TxCtx(name) ==
    CASE name = "A" -> One(2, P(0, 500),        P(0, 10))            \* height lock, relative height 10
      [] name = "B" -> One(1, P(29, 13460737),  Final)               \* time lock 500000001, final sequence, v1
      [] name = "C" -> One(2, P(29, 13460736),  P(0, 4194314))       \* time lock = threshold, relative time 10
      [] name = "D" -> One(2, P(255, 16777215), P(128, 10))          \* max lock time, disable bit in sequence
      [] name = "E" -> One(2, P(0, 0),          P(0, 65535))         \* zero lock, max relative height
      [] name = "F" -> One(1, P(0, 500),        P(0, 10))            \* as A but transaction version 1
      \* two inputs: the executing one and the other one differ
      [] name = "G" -> Two(2, P(0, 500), 1, P(0, 10), Final)         \* input 1 runs, not final; input 0 final
      [] name = "H" -> Two(2, P(0, 500), 1, Final, P(0, 10))         \* input 1 runs, final; input 0 not final
      [] name = "I" -> Two(2, P(0, 500), 0, P(0, 10), Final)         \* input 0 runs, not final; input 1 final
      [] name = "J" -> Two(2, P(0, 500), 0, Final, P(0, 10))         \* input 0 runs, final; input 1 not final
      [] name = "K" -> Two(2, P(0, 500), 1, P(0, 10), P(128, 10))    \* input 1 runs with relative lock 10; input 0 has the disable bit
      [] name = "L" -> Two(2, P(0, 500), 1, P(128, 10), P(0, 10))    \* input 1 runs with the disable bit; input 0 relative lock 10
      [] name = "M" -> Two(2, P(0, 500), 1, P(0, 4194314), P(0, 10)) \* input 1 runs with a time-based relative lock; input 0 height-based
      [] name = "N" -> Two(2, P(0, 500), 1, P(0, 9), P(0, 11))       \* input 1 runs with relative lock 9; input 0 has 11

CtxNames == {"A", "B", "C", "D", "E", "F", "G", "H", "I", "J", "K", "L", "M", "N"}
Config(t) == [fl |-> FlagSet(t[2]), tx |-> TxCtx(t[3])]

\* the binder reads the tables it has to concretise from TLC's output
ASSUME PrintT(<<"TABLES", [n \in CtxNames |-> TxCtx(n)], [f \in FlagSetNames |-> FlagSet(f)]>>)

-----------------------------------------------------------------------------
(* elements *)
E0     == Empty
E1     == Raw(<<1>>)
E2     == Raw(<<2>>)
E3     == Raw(<<3>>)
E16    == Raw(<<16>>)
E17    == Raw(<<17>>)
EM1    == Raw(<<129>>)
ENeg0  == Raw(<<128>>)
EZero1 == Raw(<<0>>)                         \* non-minimal zero, false
ENonMin1 == Raw(<<1, 0>>)                    \* 1, not minimally encoded
E127   == Raw(<<127>>)
E128   == Raw(<<128, 0>>)
EM255  == Raw(<<255, 128>>)
E256   == Raw(<<0, 1>>)
E500   == Raw(<<244, 1>>)
E501   == Raw(<<245, 1>>)
E10    == Raw(<<10>>)
E11    == Raw(<<11>>)
EMax   == Raw(<<255, 255, 255, 127>>)        \* 2^31 - 1
EMin   == Raw(<<255, 255, 255, 255>>)        \* -(2^31 - 1)
E5B    == Raw(<<0, 0, 0, 128, 0>>)           \* 2^31: five bytes; the CSV disable bit
EThr   == Raw(<<0, 101, 205, 29>>)           \* 500000000
EThrM1 == Raw(<<255, 100, 205, 29>>)         \* 499999999
EThrP1 == Raw(<<1, 101, 205, 29>>)           \* 500000001
EU32   == Raw(<<255, 255, 255, 255, 0>>)     \* 2^32 - 1
E6B    == Raw(<<1, 0, 0, 0, 0, 1>>)          \* six bytes
ETyp   == Raw(<<0, 0, 64>>)                  \* 2^22: the CSV type flag
ETyp10 == Raw(<<10, 0, 64>>)                 \* type flag + 10
ETyp11 == Raw(<<11, 0, 64>>)
E65535 == Raw(<<255, 255, 0>>)
E65536 == Raw(<<0, 0, 1>>)
EBig520 == Fill(7, 520)
EBig521 == Fill(7, 521)
EZeros  == Fill(0, 76)                       \* 76 zero bytes: false
EF40    == Raw([i \in 1..40 |-> 5])          \* 40 bytes
EF75    == Fill(5, 75)
EF76    == Fill(5, 76)
EF255   == Fill(5, 255)
EF256   == Fill(5, 256)
EH20    == HashOf("hash160", Raw(<<9, 9>>))
EH32    == HashOf("sha256", Raw(<<9, 9>>))

(* keys and signatures *)
K1c == KeyElem("K1", 2)
K1u == KeyElem("K1", 4)
K1h == KeyElem("K1", 6)
K1x == KeyElem("K1", 32)
K1bad == KeyElem("K1", 1)
K1s31 == KeyElem("K1", 31)
K2c == KeyElem("K2", 2)
K2x == KeyElem("K2", 32)
K3c == KeyElem("K3", 2)
\* ECDSA signature by key k, SIGHASH_ALL, strict DER, for sigversion code svc, no code separator
SigBy(k, svc) == SigElem(k, 1, 0, svc, 0)
\* the ECDSA signature variants for sigversion code svc
SigVariants(svc) == {SigBy("K1", svc),
                     SigElem("K1", 1, 1, svc, 0),      \* high S
                     SigElem("K1", 1, 2, svc, 0),      \* BER, not DER
                     SigElem("K1", 4, 0, svc, 0),      \* undefined hash type
                     SigElem("K1", 131, 0, svc, 0),    \* SINGLE|ANYONECANPAY
                     SigElem("K1", 1, 0, svc, 1)}      \* made for the code after a code separator at position 1
\* well formed under the encoding rules, but not decodable
K1offc == KeyElem("K1", 12)
K1offu == KeyElem("K1", 14)
UndecSigs(svc) == {SigElem("K1", 1, cls, svc, 0) : cls \in UndecodableSigs}
\* every DER shape class of BIP66 (SIGHASH_ALL appended), see ScriptVM!ShapeBody
ShapeSigs == {SigElem("K1", 1, cls, 0, 0) : cls \in ShapeClasses}
\* schnorr signatures for tapscript
SchnorrVariants == {SigElem("K1", 0, 64, 2, 0),        \* 64 bytes, default hash type
                    SigElem("K1", 1, 64, 2, 0),        \* 65 bytes, SIGHASH_ALL
                    SigElem("K1", 4, 64, 2, 0),        \* 65 bytes, undefined hash type
                    SigElem("K1", 0, 64, 2, 1),        \* for code separator position 1
                    SigElem("K1", 0, 64, 3, 0)}        \* a key-path signature

-----------------------------------------------------------------------------
(* all one-byte opcodes by btcd name (OP_1..OP_16 are OP_N, undefined bytes OP_UNKNOWN) *)
NamedOps == {
    "OP_0", "OP_1NEGATE", "OP_RESERVED", "OP_NOP", "OP_VER", "OP_IF", "OP_NOTIF", "OP_VERIF", "OP_VERNOTIF",
    "OP_ELSE", "OP_ENDIF", "OP_VERIFY", "OP_RETURN", "OP_TOALTSTACK", "OP_FROMALTSTACK", "OP_2DROP", "OP_2DUP",
    "OP_3DUP", "OP_2OVER", "OP_2ROT", "OP_2SWAP", "OP_IFDUP", "OP_DEPTH", "OP_DROP", "OP_DUP", "OP_NIP",
    "OP_OVER", "OP_PICK", "OP_ROLL", "OP_ROT", "OP_SWAP", "OP_TUCK", "OP_CAT", "OP_SUBSTR", "OP_LEFT",
    "OP_RIGHT", "OP_SIZE", "OP_INVERT", "OP_AND", "OP_OR", "OP_XOR", "OP_EQUAL", "OP_EQUALVERIFY",
    "OP_RESERVED1", "OP_RESERVED2", "OP_1ADD", "OP_1SUB", "OP_2MUL", "OP_2DIV", "OP_NEGATE", "OP_ABS",
    "OP_NOT", "OP_0NOTEQUAL", "OP_ADD", "OP_SUB", "OP_MUL", "OP_DIV", "OP_MOD", "OP_LSHIFT", "OP_RSHIFT",
    "OP_BOOLAND", "OP_BOOLOR", "OP_NUMEQUAL", "OP_NUMEQUALVERIFY", "OP_NUMNOTEQUAL", "OP_LESSTHAN",
    "OP_GREATERTHAN", "OP_LESSTHANOREQUAL", "OP_GREATERTHANOREQUAL", "OP_MIN", "OP_MAX", "OP_WITHIN",
    "OP_RIPEMD160", "OP_SHA1", "OP_SHA256", "OP_HASH160", "OP_HASH256", "OP_CODESEPARATOR", "OP_CHECKSIG",
    "OP_CHECKSIGVERIFY", "OP_CHECKMULTISIG", "OP_CHECKMULTISIGVERIFY", "OP_NOP1", "OP_CHECKLOCKTIMEVERIFY",
    "OP_CHECKSEQUENCEVERIFY", "OP_NOP4", "OP_NOP5", "OP_NOP6", "OP_NOP7", "OP_NOP8", "OP_NOP9", "OP_NOP10",
    "OP_CHECKSIGADD" }
AllOneByte == {Op(n) : n \in NamedOps} \cup {OpN(v) : v \in 1..16} \cup {OpUnknown(x) : x \in 187..255}

\* push forms: every encoding at its boundaries, minimal and not, truncated
PushForms == {
    PushEnc(E17, "d"), PushEnc(E1, "d"), PushEnc(EM1, "d"), PushEnc(E16, "d"), PushEnc(EZero1, "d"),
    PushEnc(ENonMin1, "d"), PushEnc(EF40, "d"), PushEnc(EF75, "d"), PushEnc(EH20, "d"), PushEnc(EH32, "d"),
    PushEnc(E0, "p1"), PushEnc(E17, "p1"), PushEnc(EF75, "p1"), PushEnc(EF76, "p1"), PushEnc(EF255, "p1"),
    PushEnc(E0, "p2"), PushEnc(E17, "p2"), PushEnc(EF255, "p2"), PushEnc(EF256, "p2"), PushEnc(EBig520, "p2"),
    PushEnc(EBig521, "p2"),
    PushEnc(E0, "p4"), PushEnc(E17, "p4"), PushEnc(EF256, "p4"), PushEnc(EBig520, "p4"), PushEnc(EBig521, "p4"),
    TruncPush(ENonMin1, "d"), TruncPush(EF76, "p1"), TruncPush(EF256, "p2"), TruncPush(EF256, "p4"),
    \* n = 1: even the length bytes are cut off
    [TruncPush(EF76, "p1") EXCEPT !.n = 1], [TruncPush(EF256, "p2") EXCEPT !.n = 1],
    [TruncPush(EF256, "p4") EXCEPT !.n = 1] }

ASSUME \A t \in PushForms : TokenOK(t)
=============================================================================
