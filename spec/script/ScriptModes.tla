----------------------------- MODULE ScriptModes -----------------------------
(***************************************************************************)
(* C06.  The three ways the model-checking modules run a program:          *)
(* mode "b": the program is the scriptPubKey, scriptSig = the minimal      *)
(*           pushes of the initial stack, no witness (sigversion base)     *)
(* mode "w": the program is a P2WSH witness script, witness = initial      *)
(*           stack + script (sigversion v0)                                *)
(* mode "t": the program is a tapscript leaf (version 0xc0), witness =     *)
(*           initial stack + script + 33-byte control block                *)
(* and what Bitcoin's VerifyScript makes of the outcome (Pre / Fin).       *)
(* A configuration is t = <<mode, flag set name, tx context name>>.        *)
(***************************************************************************)
EXTENDS ScriptAlpha


Mode(t) == t[1]
Vm(t) == LET c0 == Config(t) IN
         CASE Mode(t) = "b" -> Base(c0) [] Mode(t) = "w" -> V0(c0) [] Mode(t) = "t" -> Tap(c0, FALSE)

\* witness size of the tapscript spend: stack + script + 33-byte control block
TapWitSize(ini, plen) == VarIntLen(Len(ini) + 2) + SumSizes(ini) + VarIntLen(plen) + plen + 34

\* what ends verification before the program runs: "" (nothing), "ok", "fail"
Pre(t, ini, p) ==
    CASE Mode(t) = "b" ->
            IF Len(ini) > 1000 THEN "fail"          \* the scriptSig pushes overflow the stack
            ELSE IF \E i \in 1..Len(ini) : ini[i].n > 520 THEN "fail"
            ELSE IF ScriptLen([i \in 1..Len(ini) |-> MinPush(ini[i])]) > 10000 THEN "fail"
            ELSE IF ScriptLen(p) > 10000 THEN "fail"
            ELSE ""
      [] Mode(t) = "w" ->
            IF ScriptLen(p) > 10000 THEN "fail"
            ELSE IF \E i \in 1..Len(ini) : ini[i].n > 520 THEN "fail"
            ELSE ""
      [] Mode(t) = "t" ->
            IF SuccessScan(p) = "success" THEN (IF "DISCOURAGE_OP_SUCCESS" \in FlagSet(t[2]) THEN "fail" ELSE "ok")
            ELSE IF Len(ini) > 1000 THEN "fail"
            ELSE IF \E i \in 1..Len(ini) : ini[i].n > 520 THEN "fail"
            ELSE ""

\* verdict of the spend whose program p ends in state s (after EndOfScript)
Fin(t, ini, p, s) ==
    LET c0 == Config(t)  no == [v |-> "fail", keep |-> 0] IN
    IF s.err # "" THEN no
    ELSE IF Mode(t) = "b" THEN
        IF Len(s.st) = 0 \/ ~AsBool(s.st[Len(s.st)]) THEN no
        ELSE IF Has(c0, "WITNESS") /\ IsWitnessProgram(p) THEN
            IF Len(ini) > 0 THEN no
            \* accepted without running a script: the final stack is not defined (keep = -1)
            ELSE IF VerifyWitnessProgram(c0, <<>>, WitVersion(p), WitProgram(p), FALSE).ok THEN [v |-> "ok", keep |-> 0 - 1]
            ELSE no
        ELSE IF Has(c0, "P2SH") /\ IsP2SH(p) /\ ~Assert(FALSE, <<"enumerated program is a satisfied P2SH template", p>>) THEN no
        ELSE IF Has(c0, "CLEANSTACK") /\ Len(s.st) # 1 THEN no
        ELSE [v |-> "ok", keep |-> Len(s.st)]
    ELSE IF Len(s.st) = 1 /\ AsBool(s.st[1]) THEN [v |-> "ok", keep |-> 1]
    ELSE no

=============================================================================
