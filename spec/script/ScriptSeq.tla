------------------------------ MODULE ScriptSeq ------------------------------
(***************************************************************************)
(* C06.  The sequencing of a spend (VerifyScript of the reference client): *)
(* scriptSig -> scriptPubKey -> P2SH redeem script -> witness program      *)
(* (v0 P2WPKH / P2WSH, v1 taproot key path / script path with tapscript,   *)
(* pay-to-anchor, unknown versions) -> clean stack / unexpected witness.   *)
(*                                                                         *)
(* A spend is [sig, pk, wit]: scriptSig tokens, scriptPubKey tokens,       *)
(* witness stack (elements).  Scripts that travel as stack elements        *)
(* (redeem / witness / tap scripts) are "scr" elements named in the        *)
(* table ScriptOf.  A control block is the element                         *)
(*   [t = "ctrl", k = name of the script it proves, b = <<leaf version,    *)
(*    1 if the merkle path and parity open the output key else 0>>,        *)
(*    n = byte length].                                                    *)
(* The taproot output key is the x-only key element named "TAP".           *)
(*                                                                         *)
(* The result is [ok, tr]: verdict and the sequence of machine states      *)
(* [st, alt, cmp, ph, ops] after every executed opcode; the entry of the   *)
(* last opcode of a script already shows the stack the next script starts  *)
(* from (the implementation performs that hand-over in the same step).     *)
(* cmp = FALSE marks entries whose stack the property does not define      *)
(* (verification ended without running an inner script).                   *)
(***************************************************************************)
EXTENDS ScriptVM

CONSTANT ScriptOf(_)      \* name of a "scr" element -> its tokens

-----------------------------------------------------------------------------
Base(c0) == [sv |-> "base", fl |-> c0.fl, tx |-> c0.tx, ax |-> FALSE]
V0(c0)   == [sv |-> "v0",   fl |-> c0.fl, tx |-> c0.tx, ax |-> FALSE]
\* ax: the witness carries an annex (taproot signatures commit to it)
Tap(c0, annex) == [sv |-> "tap", fl |-> c0.fl, tx |-> c0.tx, ax |-> annex]

IsWitnessProgram(script) ==
    /\ Len(script) = 2
    /\ script[1].op \in {"OP_0", "OP_N"}
    /\ script[2].op = "PUSH" /\ ~script[2].tr /\ script[2].enc = "d"
    /\ script[2].e.n >= 2 /\ script[2].e.n <= 40
WitVersion(script) == IF script[1].op = "OP_0" THEN 0 ELSE script[1].n
WitProgram(script) == script[2].e

IsP2SH(script) ==
    /\ Len(script) = 3
    /\ script[1].op = "OP_HASH160"
    /\ script[2].op = "PUSH" /\ ~script[2].tr /\ script[2].enc = "d" /\ script[2].e.n = 20
    /\ script[3].op = "OP_EQUAL"

IsPushOnly(script) == \A i \in 1..Len(script) : ~script[i].tr /\ (IsPushTok(script[i]) \/ script[i].op = "OP_RESERVED")

\* a script that travels as an element: a named "scr" element, or the empty
\* element for the empty script (named "empty")
IsScr(e) == e.t = "scr" \/ e.n = 0
ScrName(e) == IF e.n = 0 THEN "empty" ELSE e.k
ScriptOfElem(e) == IF e.n = 0 THEN <<>> ELSE ScriptOf(e.k)

IsAnchor(ver, prog) == ver = 1 /\ prog = Raw(<<78, 115>>)
IsAnnex(e) == e.n > 0 /\ e.t = "raw" /\ e.b[1] = 80

VarIntLen(x) == IF x < 253 THEN 1 ELSE IF x <= 65535 THEN 3 ELSE 5
RECURSIVE SumSizes(_)
SumSizes(w) == IF Len(w) = 0 THEN 0 ELSE VarIntLen(w[1].n) + w[1].n + SumSizes(Tail(w))
WitnessSize(w) == VarIntLen(Len(w)) + SumSizes(w)

P2PKHScript(prog) == <<Op("OP_DUP"), Op("OP_HASH160"), Push(prog), Op("OP_EQUALVERIFY"), Op("OP_CHECKSIG")>>

-----------------------------------------------------------------------------
(* traces *)

\* ops: the counted operations of the running script so far.  The counter is
\* per script: every script (scriptSig, scriptPubKey, redeem script, witness
\* script) starts from VM0 with ops = 0, and the hand-over entry shows the
\* reset (ops = 0).  At most 201 per script outside tapscript, CHECKMULTISIG
\* adding its key count (ScriptVM!Exec, CheckMultiSig).
Entry(s, ph) == [st |-> s.st, alt |-> s.alt, cmp |-> TRUE, ph |-> ph, ops |-> s.ops]

\* states after each token of script from s (stops after the first failure)
RECURSIVE Steps(_, _, _, _)
Steps(s, i, c, script) ==
    IF i > Len(script) THEN <<>>
    ELSE LET n0 == Exec(s, script[i], c, script)
             n  == IF i = Len(script) THEN EndOfScript(n0) ELSE n0 IN
         IF n.err # "" THEN <<n>> ELSE <<n>> \o Steps(n, i + 1, c, script)

\* run of one script: [err, st, tr]; tr has one entry per executed opcode
\* that succeeded (the failing opcode has no entry)
RunScript(st0, c, script, budget, ph) ==
    IF c.sv # "tap" /\ ScriptLen(script) > 10000 THEN [err |-> "scriptsize", st |-> <<>>, tr |-> <<>>]
    ELSE LET ss == Steps(VM0(st0, budget), 1, c, script)
             good == SelectSeq(ss, LAMBDA x : x.err = "")
             last == IF Len(ss) = 0 THEN VM0(st0, budget) ELSE ss[Len(ss)] IN
         [err |-> last.err, st |-> last.st, tr |-> [i \in 1..Len(good) |-> Entry(good[i], ph)]]

\* replace the stacks of the last trace entry by the hand-over stack
HandOver(tr, st, cmp) ==
    IF Len(tr) = 0 THEN tr
    ELSE [tr EXCEPT ![Len(tr)] = [st |-> st, alt |-> <<>>, cmp |-> cmp, ph |-> @.ph, ops |-> 0]]

\* err: the error class of the opcode that failed ("" when verification failed elsewhere or succeeded)
Res(ok, tr) == [ok |-> ok, tr |-> tr, err |-> ""]
ResE(tr, e) == [ok |-> FALSE, tr |-> tr, err |-> e]

-----------------------------------------------------------------------------
(* witness programs *)

\* ExecuteWitnessScript: result [ok, tr, run]; run = FALSE: ended before the script ran
ExecWitness(stk, script, c, budget, ph) ==
    LET scan == IF c.sv = "tap" THEN SuccessScan(script) ELSE "none" IN
    IF scan = "success" THEN [ok |-> ~Has(c, "DISCOURAGE_OP_SUCCESS"), tr |-> <<>>, run |-> FALSE, err |-> ""]
    ELSE IF c.sv = "tap" /\ Len(stk) > 1000 THEN [ok |-> FALSE, tr |-> <<>>, run |-> FALSE, err |-> ""]
    ELSE IF \E i \in 1..Len(stk) : stk[i].n > 520 THEN [ok |-> FALSE, tr |-> <<>>, run |-> FALSE, err |-> ""]
    ELSE LET r == RunScript(stk, c, script, budget, ph) IN
         [ok |-> r.err = "" /\ Len(r.st) = 1 /\ AsBool(r.st[1]), tr |-> r.tr, run |-> TRUE, err |-> r.err]

\* schnorr key-path signature check (sigversion code 3, with an annex 4)
KeyPathOK(sig, prog, annex) ==
    /\ sig.t = "sig" /\ sig.b[2] = 64 /\ sig.b[3] = (IF annex THEN 4 ELSE 3)
    /\ (sig.n = 64 \/ sig.b[1] \in {1, 2, 3, 129, 130, 131})
    /\ prog.t = "key" /\ prog.b[1] = 32 /\ sig.k = prog.k

CtrlSizeOK(e) == e.n >= 33 /\ e.n <= 4129 /\ (e.n - 33) % 32 = 0
Commits(ctrl, scrE, prog) ==
    /\ ctrl.t = "ctrl" /\ ctrl.b[2] = 1
    /\ IsScr(scrE) /\ ctrl.k = ScrName(scrE)
    /\ prog.t = "key" /\ prog.k = "TAP"

\* VerifyWitnessProgram: result [ok, tr, run, stk]; stk = the stack the inner
\* script starts from (when run)
VerifyWitnessProgram(c0, wit, ver, prog, isP2SH) ==
    LET no(v) == [ok |-> v, tr |-> <<>>, run |-> FALSE, stk |-> <<>>, err |-> ""] IN
    IF ver = 0 THEN
        IF prog.n = 32 THEN
            IF Len(wit) = 0 THEN no(FALSE)
            ELSE LET scrE == wit[Len(wit)]  stk == SubSeq(wit, 1, Len(wit) - 1) IN
                 IF ~Assert(IsScr(scrE) \/ HashOf("sha256", scrE) # prog, <<"witness script is not a named script", scrE>>) THEN no(FALSE)
                 ELSE IF HashOf("sha256", scrE) # prog THEN no(FALSE)
                 ELSE IF ScriptLen(ScriptOfElem(scrE)) > 10000 THEN no(FALSE)
                 ELSE LET r == ExecWitness(stk, ScriptOfElem(scrE), V0(c0), 0, "wscript") IN
                      [ok |-> r.ok, tr |-> r.tr, run |-> r.run, stk |-> stk, err |-> r.err]
        ELSE IF prog.n = 20 THEN
            IF Len(wit) # 2 THEN no(FALSE)
            ELSE LET r == ExecWitness(wit, P2PKHScript(prog), V0(c0), 0, "wpkh") IN
                 [ok |-> r.ok, tr |-> r.tr, run |-> r.run, stk |-> wit, err |-> r.err]
        ELSE no(FALSE)
    ELSE IF ver = 1 /\ prog.n = 32 /\ ~isP2SH THEN
        IF ~Has(c0, "TAPROOT") THEN no(TRUE)
        ELSE IF Len(wit) = 0 THEN no(FALSE)
        ELSE LET annex == Len(wit) >= 2 /\ IsAnnex(wit[Len(wit)])
                 w == IF annex THEN SubSeq(wit, 1, Len(wit) - 1) ELSE wit IN
             IF Len(w) = 1 THEN no(KeyPathOK(w[1], prog, annex))
             \* script path, in this order: control block size, COMMITMENT of the
             \* revealed leaf (version, script) to the output key, leaf version, and
             \* only then the tapscript rules (OP_SUCCESSx scan, stack limits,
             \* execution: ExecWitness).  A leaf that is not committed fails whatever
             \* it contains.
             ELSE LET ctrl == w[Len(w)]  scrE == w[Len(w) - 1]  stk == SubSeq(w, 1, Len(w) - 2) IN
                  IF ~CtrlSizeOK(ctrl) THEN no(FALSE)
                  ELSE IF ~Commits(ctrl, scrE, prog) THEN no(FALSE)
                  ELSE IF ctrl.b[1] = 192 THEN
                       LET r == ExecWitness(stk, ScriptOfElem(scrE), Tap(c0, annex), 50 + WitnessSize(wit), "tapscript") IN
                       [ok |-> r.ok, tr |-> r.tr, run |-> r.run, stk |-> stk, err |-> r.err]
                  ELSE no(~Has(c0, "DISCOURAGE_UPGRADABLE_TAPROOT_VERSION"))
    ELSE IF ~isP2SH /\ IsAnchor(ver, prog) THEN no(TRUE)
    ELSE no(~Has(c0, "DISCOURAGE_UPGRADABLE_WITNESS_PROGRAM"))

-----------------------------------------------------------------------------
(* VerifyScript *)

VerifyScript(sp, c0) ==
    LET b == Base(c0)
        r1 == RunScript(<<>>, b, sp.sig, 0, "sig") IN
    IF r1.err # "" THEN ResE(r1.tr, r1.err)
    ELSE
    LET t1 == HandOver(r1.tr, r1.st, TRUE)
        r2 == RunScript(r1.st, b, sp.pk, 0, "pk")
        t12 == t1 \o r2.tr IN
    IF r2.err # "" THEN ResE(t12, r2.err)
    ELSE IF Len(r2.st) = 0 \/ ~AsBool(r2.st[Len(r2.st)]) THEN Res(FALSE, t12)
    ELSE IF Has(c0, "WITNESS") /\ IsWitnessProgram(sp.pk) THEN
        \* native witness program
        IF Len(sp.sig) # 0 THEN Res(FALSE, t12)
        ELSE LET w == VerifyWitnessProgram(c0, sp.wit, WitVersion(sp.pk), WitProgram(sp.pk), FALSE) IN
             IF ~w.ok THEN ResE((IF w.run THEN HandOver(t12, w.stk, TRUE) ELSE t12) \o w.tr, w.err)
             ELSE IF w.run THEN Res(TRUE, HandOver(t12, w.stk, TRUE) \o w.tr)
             ELSE Res(TRUE, HandOver(t12, <<r2.st[1]>>, FALSE))
    ELSE IF Has(c0, "P2SH") /\ IsP2SH(sp.pk) THEN
        IF ~IsPushOnly(sp.sig) THEN Res(FALSE, t12)
        ELSE IF ~Assert(Len(r1.st) > 0, "p2sh with empty stack copy") THEN Res(FALSE, t12)
        ELSE
        LET redE == r1.st[Len(r1.st)]
            stk3 == SubSeq(r1.st, 1, Len(r1.st) - 1) IN
        IF ~Assert(IsScr(redE), <<"redeem script is not a named script", redE>>) THEN Res(FALSE, t12)
        ELSE
        LET red == ScriptOfElem(redE)
            r3 == RunScript(stk3, b, red, 0, "redeem")
            t123 == HandOver(t12, stk3, TRUE) \o r3.tr IN
        IF r3.err # "" THEN ResE(t123, r3.err)
        ELSE IF Len(r3.st) = 0 \/ ~AsBool(r3.st[Len(r3.st)]) THEN Res(FALSE, t123)
        ELSE IF Has(c0, "WITNESS") /\ IsWitnessProgram(red) THEN
            IF sp.sig # <<Push(redE)>> THEN Res(FALSE, t123)
            ELSE LET w == VerifyWitnessProgram(c0, sp.wit, WitVersion(red), WitProgram(red), TRUE) IN
                 IF ~w.ok THEN ResE((IF w.run THEN HandOver(t123, w.stk, TRUE) ELSE t123) \o w.tr, w.err)
                 ELSE IF w.run THEN Res(TRUE, HandOver(t123, w.stk, TRUE) \o w.tr)
                 ELSE Res(TRUE, HandOver(t123, <<r3.st[1]>>, FALSE))
        ELSE IF Has(c0, "CLEANSTACK") /\ Len(r3.st) # 1 THEN Res(FALSE, t123)
        ELSE IF Has(c0, "WITNESS") /\ Len(sp.wit) > 0 THEN Res(FALSE, t123)
        ELSE Res(TRUE, t123)
    ELSE IF Has(c0, "CLEANSTACK") /\ Len(r2.st) # 1 THEN Res(FALSE, t12)
    ELSE IF Has(c0, "WITNESS") /\ Len(sp.wit) > 0 THEN Res(FALSE, t12)
    ELSE Res(TRUE, t12)
=============================================================================
