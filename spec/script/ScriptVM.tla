------------------------------ MODULE ScriptVM ------------------------------
(***************************************************************************)
(* C06.  A second implementation of Bitcoin's script interpreter           *)
(* (EvalScript of the reference client, BIP16/62/65/66/112/141/143/147/    *)
(* 341/342 semantics) as pure TLA+ operators over abstract tokens.         *)
(*                                                                         *)
(* Stack elements are records of ONE shape                                 *)
(*   [t, b, n, k, r]                                                       *)
(*   t = "raw"  : the explicit bytes b (n = Len(b) <= 40)                  *)
(*   t = "fill" : n (>= 41) copies of the byte b[1]                        *)
(*   t = "hash" : the k-hash (k in sha1, ripemd160, sha256, hash160,       *)
(*                hash256) of the element r[1]; uninterpreted, injective   *)
(*   t = "key"  : public key of the abstract key pair k in serialisation   *)
(*                form b[1] (see KeyForms)                                 *)
(*   t = "sig"  : a signature made with key pair k; b = <<hashtype,        *)
(*                encoding class, sigversion code, codesep position>>      *)
(*   t = "scr"  : the serialisation of the script named k (ScriptSeq)      *)
(* Two elements denote the same bytes iff they are equal records (the      *)
(* alphabets of the model-checking modules keep the forms disjoint; the    *)
(* binder re-checks injectivity of the concretisation).                    *)
(*                                                                         *)
(* A script is a sequence of tokens [op, n, enc, e, tr]:                   *)
(*   op  = btcd's opcode name, or "PUSH" for OP_DATA_x / OP_PUSHDATAx,     *)
(*         "OP_N" for OP_1..OP_16 (value n), "OP_UNKNOWN" for the          *)
(*         undefined opcode byte n                                         *)
(*   enc = "d" (OP_DATA_len), "p1", "p2", "p4" for PUSH                    *)
(*   e   = pushed element;  tr = TRUE: the push is truncated by the end    *)
(*         of the script                                                   *)
(*                                                                         *)
(* A configuration c = [sv, fl, tx, ax]: sigversion "base" | "v0" | "tap", *)
(* set of flag names, transaction context, annex present.                  *)
(***************************************************************************)
EXTENDS Integers, Sequences, FiniteSets, TLC

-----------------------------------------------------------------------------
(* elements *)

Raw(bs)      == [t |-> "raw",  b |-> bs,    n |-> Len(bs), k |-> "", r |-> <<>>]
Fill(x, len) == [t |-> "fill", b |-> <<x>>, n |-> len,     k |-> "", r |-> <<>>]
HashLen(kind) == IF kind \in {"sha256", "hash256"} THEN 32 ELSE 20
HashOf(kind, e) == [t |-> "hash", b |-> <<>>, n |-> HashLen(kind), k |-> kind, r |-> <<e>>]
Empty == Raw(<<>>)
TrueElem == Raw(<<1>>)
BoolElem(v) == IF v THEN TrueElem ELSE Empty

\* key forms: 2 compressed (33 bytes), 4 uncompressed (65), 6 hybrid (65),
\* 32 x-only (32), 1 a 33-byte string with an undefined prefix byte (0x05),
\* 31 a 31-byte string (unknown tapscript key type)
\* 12 a 33-byte string 02 || x with x not the abscissa of a curve point,
\* 14 a 65-byte string 04 || x || y with (x, y) not on the curve: both pass the
\* encoding rules (CheckPubKeyEncoding looks at size and prefix only) but do
\* not decode to a key
KeyLen(form) == CASE form = 2 -> 33 [] form = 4 -> 65 [] form = 6 -> 65
                  [] form = 32 -> 32 [] form = 1 -> 33 [] form = 31 -> 31
                  [] form = 12 -> 33 [] form = 14 -> 65
KeyElem(name, form) == [t |-> "key", b |-> <<form>>, n |-> KeyLen(form), k |-> name, r |-> <<>>]

\* signature: ht hashtype byte; cls encoding class
\*   0 strict DER, low S        1 strict DER, high S
\*   2 valid BER but not strict DER (padded R), low S
\*   64 schnorr 64 bytes (ht = 0 implicit) / 65 bytes (ht # 0 appended)
\* svc: 0 base, 1 v0, 2 tapscript, 3 taproot key path, 4 / 5 key path / tapscript
\* committing to an annex;  cs: code separator position signed
\*   10..26 malformed shapes, one per way BIP66's IsValidSignatureEncoding can
\*          fail (ShapeBody); 27 the shortest strict DER encoding (r = s = 1):
\*          well formed, valid for no key
\* byte length of the shape bodies (without the hash type byte)
ShapeBody(cls) ==
    CASE cls = 10 -> 6    \* 30 04 02 01 01 02                       too short
      [] cls = 11 -> 73   \* 30 47 02 23 <35> 02 20 <32>             too long
      [] cls = 12 -> 8    \* 31 06 02 01 01 02 01 01                 wrong sequence tag
      [] cls = 13 -> 8    \* 30 07 02 01 01 02 01 01                 total length wrong
      [] cls = 14 -> 8    \* 30 06 03 01 01 02 01 01                 R tag wrong
      [] cls = 15 -> 8    \* 30 06 02 00 02 02 01 01                 R length zero
      [] cls = 16 -> 8    \* 30 06 02 01 81 02 01 01                 R negative
      [] cls = 17 -> 9    \* 30 07 02 02 00 01 02 01 01              R excessively padded
      [] cls = 18 -> 8    \* 30 06 02 01 01 03 01 01                 S tag wrong
      [] cls = 19 -> 8    \* 30 06 02 02 01 01 02 00                 S length zero
      [] cls = 20 -> 8    \* 30 06 02 01 01 02 01 81                 S negative
      [] cls = 21 -> 9    \* 30 07 02 01 01 02 02 00 01              S excessively padded
      [] cls = 22 -> 8    \* 30 06 02 03 01 01 01 02                 S tag on the last byte: S length missing
      [] cls = 23 -> 8    \* 30 06 02 05 01 01 01 01                 R length runs past the end: S tag missing
      [] cls = 24 -> 8    \* 30 06 02 01 01 02 02 01                 S length past the end
      [] cls = 25 -> 8    \* 30 06 02 01 01 02 00 01                 S length short of the end
      [] cls = 26 -> 8    \* 30 06 02 ff 01 01 01 01                 R length 255
      [] cls = 27 -> 8    \* 30 06 02 01 01 02 01 01                 strict DER, r = s = 1
ShapeClasses == 10..27
\*   30..33 strict DER that passes every encoding rule but does not decode to a
\*          signature: R = 0, S = 0, R = group order, S = group order (CheckLowS
\*          of the reference parses such an S as 0: not "high")
UndecodableSigs == 30..33
SigLen(cls, ht) == CASE cls = 0 -> 71 [] cls = 1 -> 72 [] cls = 2 -> 72
                     [] cls = 64 -> (IF ht = 0 THEN 64 ELSE 65)
                     [] cls \in ShapeClasses -> ShapeBody(cls) + 1
                     [] cls \in {30, 31} -> 40 [] cls \in {32, 33} -> 72
SigElem(name, ht, cls, svc, cs) ==
    [t |-> "sig", b |-> <<ht, cls, svc, cs>>, n |-> SigLen(cls, ht), k |-> name, r |-> <<>>]

ScrElem(name, len) == [t |-> "scr", b |-> <<>>, n |-> len, k |-> name, r |-> <<>>]

\* the boolean value of an element (CastToBool)
AsBool(e) ==
    CASE e.t = "raw"  -> \E i \in 1..e.n : e.b[i] # 0 /\ ~(i = e.n /\ e.b[i] = 128)
      [] e.t = "fill" -> e.b[1] # 0
      [] OTHER        -> TRUE      \* hashes, keys, signatures, scripts are never all zero

-----------------------------------------------------------------------------
(* script numbers *)

Pow256(i) == CASE i = 0 -> 1 [] i = 1 -> 256 [] i = 2 -> 65536 [] i = 3 -> 16777216

\* magnitude byte i of a little-endian sign-magnitude number (0 beyond the end)
MagByte(bs, i) == IF i > Len(bs) THEN 0 ELSE IF i = Len(bs) THEN bs[i] % 128 ELSE bs[i]
IsNegBytes(bs) == Len(bs) > 0 /\ bs[Len(bs)] >= 128

\* minimal encoding of a number (BIP62 rule 4)
MinimalNum(bs) ==
    \/ Len(bs) = 0
    \/ bs[Len(bs)] % 128 # 0
    \/ (Len(bs) > 1 /\ bs[Len(bs) - 1] >= 128)

\* value of an at most 4-byte number: within +-(2^31 - 1)
Mag4(bs) == MagByte(bs, 1) + MagByte(bs, 2) * 256 + MagByte(bs, 3) * 65536 + MagByte(bs, 4) * 16777216
NumVal(bs) == IF IsNegBytes(bs) THEN 0 - Mag4(bs) ELSE Mag4(bs)

\* value of an at most 5-byte number as [neg, hi, lo], value = hi * 2^24 + lo
Num5(bs) == [neg |-> IsNegBytes(bs),
             hi  |-> MagByte(bs, 4) + MagByte(bs, 5) * 256,
             lo  |-> MagByte(bs, 1) + MagByte(bs, 2) * 256 + MagByte(bs, 3) * 65536]
PairLess(a, b) == a.hi < b.hi \/ (a.hi = b.hi /\ a.lo < b.lo)
PairLeq(a, b)  == ~PairLess(b, a)

RECURSIVE StripZeros(_)
StripZeros(bs) == IF Len(bs) > 0 /\ bs[Len(bs)] = 0 THEN StripZeros(SubSeq(bs, 1, Len(bs) - 1)) ELSE bs

\* sign-magnitude encoding from the little-endian magnitude bytes (no trailing zero)
EncMag(neg, mb) ==
    IF Len(mb) = 0 THEN <<>>
    ELSE IF mb[Len(mb)] >= 128 THEN Append(mb, IF neg THEN 128 ELSE 0)
    ELSE IF neg THEN [mb EXCEPT ![Len(mb)] = @ + 128]
    ELSE mb

\* encoding of hi16 * 65536 + lo16 (hi16 up to 65536)
EncSplit(neg, mh, ml) ==
    EncMag(neg, StripZeros(<<ml % 256, ml \div 256, mh % 256, (mh \div 256) % 256, mh \div 65536>>))

Abs(v) == IF v < 0 THEN 0 - v ELSE v
EncodeInt(v) == EncSplit(v < 0, Abs(v) \div 65536, Abs(v) % 65536)
NumElem(v) == Raw(EncodeInt(v))

\* a + b for operands within +-(2^31 - 1), without leaving 32-bit integers
EncodeSum(a, b) ==
    LET al == a % 65536   ah == a \div 65536
        bl == b % 65536   bh == b \div 65536
        s0 == al + bl
        sl == s0 % 65536
        sh == ah + bh + (s0 \div 65536)
        neg == sh < 0
        mh == IF ~neg THEN sh ELSE IF sl = 0 THEN 0 - sh ELSE (0 - sh) - 1
        ml == IF ~neg THEN sl ELSE IF sl = 0 THEN 0 ELSE 65536 - sl
    IN EncSplit(neg, mh, ml)

-----------------------------------------------------------------------------
(* tokens *)

Op(name)         == [op |-> name, n |-> 0, enc |-> "", e |-> Empty, tr |-> FALSE]
OpN(v)           == [op |-> "OP_N", n |-> v, enc |-> "", e |-> Empty, tr |-> FALSE]
OpUnknown(byte)  == [op |-> "OP_UNKNOWN", n |-> byte, enc |-> "", e |-> Empty, tr |-> FALSE]
PushEnc(e, enc)  == [op |-> "PUSH", n |-> 0, enc |-> enc, e |-> e, tr |-> FALSE]
\* the smallest direct push form for the length (not necessarily BIP62-minimal)
Push(e)          == PushEnc(e, IF e.n <= 75 THEN "d" ELSE IF e.n <= 255 THEN "p1" ELSE "p2")
TruncPush(e, enc) == [op |-> "PUSH", n |-> 0, enc |-> enc, e |-> e, tr |-> TRUE]
\* the BIP62-minimal way to push an element
MinPush(e) ==
    IF e.n = 0 THEN Op("OP_0")
    ELSE IF e.t = "raw" /\ e.n = 1 /\ e.b[1] >= 1 /\ e.b[1] <= 16 THEN OpN(e.b[1])
    ELSE IF e.t = "raw" /\ e.n = 1 /\ e.b[1] = 129 THEN Op("OP_1NEGATE")
    ELSE Push(e)

EncOverhead(enc) == CASE enc = "d" -> 1 [] enc = "p1" -> 2 [] enc = "p2" -> 3 [] enc = "p4" -> 5
\* serialised length of a token; a truncated push (tr) is the last token of a
\* script: with n = 0 it lacks its final data byte, with n = 1 only the opcode
\* byte is there
TokLen(tok) == IF tok.op # "PUSH" THEN 1
               ELSE IF ~tok.tr THEN EncOverhead(tok.enc) + tok.e.n
               ELSE IF tok.n = 1 THEN 1 ELSE EncOverhead(tok.enc) + tok.e.n - 1
RECURSIVE ScriptLen(_)
ScriptLen(s) == IF Len(s) = 0 THEN 0 ELSE TokLen(s[1]) + ScriptLen(Tail(s))

\* well-formedness of the push encodings an alphabet uses
TokenOK(tok) ==
    tok.op = "PUSH" =>
        CASE tok.enc = "d"  -> tok.e.n >= 1 /\ tok.e.n <= 75
          [] tok.enc = "p1" -> tok.e.n <= 255
          [] tok.enc = "p2" -> tok.e.n <= 65535
          [] tok.enc = "p4" -> TRUE

IsPushTok(tok) == tok.op \in {"PUSH", "OP_0", "OP_N", "OP_1NEGATE"}
\* opcodes above OP_16 count against the 201 limit
IsCounted(tok) == ~IsPushTok(tok) /\ tok.op # "OP_RESERVED"

PushVal(tok) ==
    CASE tok.op = "OP_0"       -> Empty
      [] tok.op = "OP_N"       -> Raw(<<tok.n>>)
      [] tok.op = "OP_1NEGATE" -> Raw(<<129>>)
      [] tok.op = "PUSH"       -> tok.e

\* BIP62 rule 3 (only opcodes up to OP_PUSHDATA4 are subject to it)
MinimalPush(tok) ==
    IF tok.op # "PUSH" THEN TRUE
    ELSE LET e == tok.e IN
         IF e.n = 0 THEN FALSE                       \* must have been OP_0
         ELSE IF e.t = "raw" /\ e.n = 1 /\ ((e.b[1] >= 1 /\ e.b[1] <= 16) \/ e.b[1] = 129) THEN FALSE
         ELSE IF e.n <= 75 THEN tok.enc = "d"
         ELSE IF e.n <= 255 THEN tok.enc = "p1"
         ELSE IF e.n <= 65535 THEN tok.enc = "p2"
         ELSE TRUE

Disabled == {"OP_CAT", "OP_SUBSTR", "OP_LEFT", "OP_RIGHT", "OP_INVERT", "OP_AND", "OP_OR", "OP_XOR",
             "OP_2MUL", "OP_2DIV", "OP_MUL", "OP_DIV", "OP_MOD", "OP_LSHIFT", "OP_RSHIFT"}
CondOps == {"OP_IF", "OP_NOTIF", "OP_VERIF", "OP_VERNOTIF", "OP_ELSE", "OP_ENDIF"}
UpgradableNops == {"OP_NOP1", "OP_NOP4", "OP_NOP5", "OP_NOP6", "OP_NOP7", "OP_NOP8", "OP_NOP9", "OP_NOP10"}

\* BIP342 OP_SUCCESSx
IsSuccessTok(tok) ==
    \/ tok.op \in (Disabled \cup {"OP_RESERVED", "OP_VER", "OP_RESERVED1", "OP_RESERVED2"})
    \/ (tok.op = "OP_UNKNOWN" /\ tok.n >= 187 /\ tok.n <= 254)

\* tapscript pre-scan: "success" if an OP_SUCCESSx is decoded before any
\* undecodable push, "bad" if an undecodable push comes first, else "none"
RECURSIVE SuccessScan(_)
SuccessScan(s) ==
    IF Len(s) = 0 THEN "none"
    ELSE IF s[1].tr THEN "bad"
    ELSE IF IsSuccessTok(s[1]) THEN "success"
    ELSE SuccessScan(Tail(s))

-----------------------------------------------------------------------------
(* configuration *)

Has(c, f) == f \in c.fl

\* transaction contexts: version, locktime and the input's sequence as
\* [hi, lo] pairs (value = hi * 2^24 + lo)
LockThreshold == [hi |-> 29, lo |-> 13460736]        \* 500000000
SeqFinal      == [hi |-> 255, lo |-> 16777215]       \* 0xffffffff

-----------------------------------------------------------------------------
(* machine state *)

VM0(st, budget) == [st |-> st, alt |-> <<>>, cond |-> <<>>, ops |-> 0, pc |-> 0, cs |-> 0,
                    bud |-> budget, err |-> ""]
Failed(e) == [st |-> <<>>, alt |-> <<>>, cond |-> <<>>, ops |-> 0, pc |-> 0, cs |-> 0, bud |-> 0, err |-> e]

Depth(s)   == Len(s.st)
Peek(s, i) == s.st[Len(s.st) - i]                     \* i = 0: top
PopN(st, k) == SubSeq(st, 1, Len(st) - k)
WithStack(s, st) == [s EXCEPT !.st = st]

\* reading an element as a number of at most maxLen bytes: "" or the error class
NumErr(e, c, maxLen) ==
    IF e.n > maxLen THEN "numoverflow"
    ELSE IF ~Assert(e.t = "raw", <<"numeric read of a short abstract element", e>>) THEN "x"
    ELSE IF Has(c, "MINIMALDATA") /\ ~MinimalNum(e.b) THEN "minimalnum"
    ELSE ""
Num(e) == NumVal(e.b)

MinimalIfViolated(e) == e.n > 1 \/ (e.n = 1 /\ e # TrueElem)

\* signature / key classes -------------------------------------------------
\* A signature element's DER-related class: "empty", "der" (strict DER),
\* "derhighs", "ber" (parsable by the lax parser only), "notder" (everything
\* else: fails even the lax parser or is no signature at all)
SigClass(e) ==
    IF e.n = 0 THEN "empty"
    ELSE IF e.t = "sig" THEN (CASE e.b[2] = 0 -> "der" [] e.b[2] = 1 -> "derhighs" [] e.b[2] = 2 -> "ber"
                                [] e.b[2] \in {27, 30, 31, 32, 33} -> "der"   \* well formed; EcdsaValid knows it is valid for nothing
                                [] OTHER -> "notder")
    ELSE "notder"
\* last byte of a non-empty would-be ECDSA signature: only known for signature elements
SigHashType(e) == IF e.t = "sig" THEN e.b[1] ELSE 0 - 1
DefinedHashType(ht) == LET base == IF ht >= 128 THEN ht - 128 ELSE ht IN base >= 1 /\ base <= 3

\* CheckSignatureEncoding: "" or the error class
SigEncErr(e, c) ==
    LET cl == SigClass(e) IN
    IF cl = "empty" THEN ""
    ELSE IF (Has(c, "DERSIG") \/ Has(c, "LOW_S") \/ Has(c, "STRICTENC")) /\ cl \in {"ber", "notder"} THEN "sigder"
    ELSE IF Has(c, "LOW_S") /\ cl = "derhighs" THEN "sighighs"
    ELSE IF Has(c, "STRICTENC") /\ ~Assert(e.t = "sig", <<"hash type of a non-signature", e>>) THEN "x"
    ELSE IF Has(c, "STRICTENC") /\ ~DefinedHashType(SigHashType(e)) THEN "sighashtype"
    ELSE ""

KeyCompressed(e) == e.t = "key" /\ e.b[1] \in {2, 12}
KeyStrict(e)     == e.t = "key" /\ e.b[1] \in {2, 4, 12, 14}
\* parsable by the ECDSA public key parser (hybrid keys are)
KeyParsable(e)   == e.t = "key" /\ e.b[1] \in {2, 4, 6}

\* passes the encoding rules but does not decode (the check then simply fails)
Undecodable(sig, key) == (sig.t = "sig" /\ sig.b[2] \in UndecodableSigs) \/ (key.t = "key" /\ key.b[1] \in {12, 14})

\* CheckPubKeyEncoding
KeyEncErr(e, c) ==
    IF Has(c, "STRICTENC") /\ ~KeyStrict(e) THEN "pubkeytype"
    ELSE IF Has(c, "WITNESS_PUBKEYTYPE") /\ c.sv = "v0" /\ ~KeyCompressed(e) THEN "witnesspubkeytype"
    ELSE ""

SvCode(c) == CASE c.sv = "base" -> 0 [] c.sv = "v0" -> 1 [] c.sv = "tap" -> 2

\* pushes of element sig among tokens
PushesOf(sig, toks) == {i \in 1..Len(toks) : toks[i].op = "PUSH" /\ ~toks[i].tr /\ toks[i].e = sig}

\* A signature cannot commit to itself: a signature that the signed part of
\* the running script pushes (and that FindAndDelete does not remove first)
\* cannot be valid.  Signed part: base / v0 the script code, tapscript the
\* whole leaf script.
SelfCovered(sig, c, script, code) ==
    CASE c.sv = "base" -> \E i \in PushesOf(sig, code) : code[i].enc # Push(sig).enc
      [] c.sv = "v0"   -> PushesOf(sig, code) # {}
      [] c.sv = "tap"  -> PushesOf(sig, script) # {}

\* Do code separator positions a and b (0 = none) select the same signed code?
\* v0 signs the bytes after the separator as they are.  The base signature hash
\* removes every OP_CODESEPARATOR from the script code first, so two positions
\* with nothing but code separators between them sign the same thing.
SameCode(a, b, c, script) ==
    IF a = b THEN TRUE
    ELSE IF c.sv # "base" THEN FALSE
    ELSE LET lo == IF a < b THEN a ELSE b  hi == IF a < b THEN b ELSE a IN
         hi <= Len(script) /\ \A i \in (lo + 1)..hi : script[i].op = "OP_CODESEPARATOR"

\* ECDSA check of signature element sig against key element key in state s
\* (after the encoding checks): the abstract signature is valid for exactly
\* one key pair and one (sigversion, code separator position)
EcdsaValid(sig, key, s, c, script, code) ==
    /\ sig.t = "sig"
    /\ sig.b[2] \in {0, 1, 2}
    /\ KeyParsable(key)
    /\ sig.k = key.k
    /\ sig.b[3] = SvCode(c)
    /\ SameCode(sig.b[4], s.cs, c, script)
    /\ ~SelfCovered(sig, c, script, code)
    \* under DERSIG / STRICTENC the strict parser is used; BER then never
    \* gets here (SigEncErr).  Without them the lax parser accepts BER.

\* FindAndDelete(scriptCode, CScript() << sig) finds something: a push of sig in
\* its smallest-by-length encoding; for the empty signature the pattern is the
\* single byte 0x00, i.e. every OP_0 of the script code (base only)
SigInCode(sig, code) ==
    IF sig.n = 0 THEN \E i \in 1..Len(code) : code[i].op = "OP_0"
    ELSE \E i \in PushesOf(sig, code) : code[i].enc = Push(sig).enc

-----------------------------------------------------------------------------
(* one opcode *)

Unary(s, c, f(_)) ==
    IF Depth(s) < 1 THEN Failed("stack")
    ELSE LET e == Peek(s, 0)  ne == NumErr(e, c, 4) IN
         IF ne # "" THEN Failed(ne) ELSE WithStack(s, Append(PopN(s.st, 1), f(Num(e))))

Binary(s, c, f(_, _)) ==
    IF Depth(s) < 2 THEN Failed("stack")
    ELSE LET a == Peek(s, 1)  b == Peek(s, 0)  ea == NumErr(a, c, 4)  eb == NumErr(b, c, 4) IN
         IF ea # "" THEN Failed(ea) ELSE IF eb # "" THEN Failed(eb)
         ELSE WithStack(s, Append(PopN(s.st, 2), f(Num(a), Num(b))))

\* OP_VERIFY on the current top
VerifyTop(s, class) ==
    IF s.err # "" THEN s
    ELSE IF Depth(s) < 1 THEN Failed("stack")
    ELSE IF ~AsBool(Peek(s, 0)) THEN Failed(class)
    ELSE WithStack(s, PopN(s.st, 1))

CheckLockTime(s, c) ==
    IF ~Has(c, "CLTV") THEN (IF Has(c, "DISCOURAGE_NOPS") THEN Failed("discouragenops") ELSE s)
    ELSE IF Depth(s) < 1 THEN Failed("stack")
    ELSE LET e == Peek(s, 0)  ne == NumErr(e, c, 5) IN
         IF ne # "" THEN Failed(ne)
         ELSE LET v == Num5(e.b) IN
              IF v.neg /\ (v.hi # 0 \/ v.lo # 0) THEN Failed("negativelocktime")
              ELSE IF PairLess(v, LockThreshold) # PairLess(c.tx.lock, LockThreshold) THEN Failed("locktime")
              ELSE IF PairLess(c.tx.lock, v) THEN Failed("locktime")
              ELSE IF c.tx.seq = SeqFinal THEN Failed("locktime")
              ELSE s

\* BIP112: bit 31 disable flag, bit 22 type flag, low 16 bits value
SeqDisabled(p) == (p.hi \div 128) % 2 = 1
SeqMasked(p)   == [hi |-> 0, lo |-> ((p.lo \div 4194304) % 2) * 4194304 + (p.lo % 65536)]
SeqTypeFlag    == [hi |-> 0, lo |-> 4194304]

CheckSequence(s, c) ==
    IF ~Has(c, "CSV") THEN (IF Has(c, "DISCOURAGE_NOPS") THEN Failed("discouragenops") ELSE s)
    ELSE IF Depth(s) < 1 THEN Failed("stack")
    ELSE LET e == Peek(s, 0)  ne == NumErr(e, c, 5) IN
         IF ne # "" THEN Failed(ne)
         ELSE LET v == Num5(e.b) IN
              IF v.neg /\ (v.hi # 0 \/ v.lo # 0) THEN Failed("negativelocktime")
              ELSE IF SeqDisabled(v) THEN s
              ELSE IF c.tx.ver < 2 THEN Failed("locktime")
              ELSE IF SeqDisabled(c.tx.seq) THEN Failed("locktime")
              ELSE LET a == SeqMasked(v)  t == SeqMasked(c.tx.seq) IN
                   IF PairLess(a, SeqTypeFlag) # PairLess(t, SeqTypeFlag) THEN Failed("locktime")
                   ELSE IF PairLess(t, a) THEN Failed("locktime")
                   ELSE s

\* OP_IF / OP_NOTIF
DoIf(s, c, exec, negate) ==
    IF ~exec THEN [s EXCEPT !.cond = Append(@, FALSE)]
    ELSE IF Depth(s) < 1 THEN Failed("unbalanced")
    ELSE LET e == Peek(s, 0) IN
         IF c.sv = "tap" /\ MinimalIfViolated(e) THEN Failed("tapminimalif")
         ELSE IF c.sv = "v0" /\ Has(c, "MINIMALIF") /\ MinimalIfViolated(e) THEN Failed("minimalif")
         ELSE [s EXCEPT !.st = PopN(@, 1), !.cond = Append(@, IF negate THEN ~AsBool(e) ELSE AsBool(e))]

\* OP_CHECKSIG family, sigversions base and v0.  code = the tokens of the
\* running script after the last executed code separator
CheckSigLegacy(s, c, script, code) ==
    IF Depth(s) < 2 THEN Failed("stack")
    ELSE LET sig == Peek(s, 1)  key == Peek(s, 0)
             se == SigEncErr(sig, c)  ke == KeyEncErr(key, c)
             found == c.sv = "base" /\ SigInCode(sig, code)
         IN
         IF found /\ Has(c, "CONST_SCRIPTCODE") THEN Failed(IF sig.n = 0 THEN "findanddelete-emptysig" ELSE "findanddelete")
         ELSE IF se # "" THEN Failed(se)
         ELSE IF ke # "" THEN Failed(ke)
         ELSE LET ok == EcdsaValid(sig, key, s, c, script, code) IN
              IF ~ok /\ Has(c, "NULLFAIL") /\ sig.n > 0
                 THEN Failed(IF Undecodable(sig, key) THEN "nullfail-undecodable" ELSE "nullfail")
              ELSE WithStack(s, Append(PopN(s.st, 2), BoolElem(ok)))

\* tapscript signature check shared by CHECKSIG(VERIFY) and CHECKSIGADD:
\* result [err, ok, bud]
TapSigCheck(sig, key, s, c, script) ==
    LET bud1 == IF sig.n > 0 THEN s.bud - 50 ELSE s.bud IN
    IF sig.n > 0 /\ bud1 < 0 THEN [err |-> "tapsigops", ok |-> FALSE, bud |-> 0]
    ELSE IF key.n = 0 THEN [err |-> "pubkeytype", ok |-> FALSE, bud |-> 0]
    ELSE IF key.n = 32 THEN
        IF sig.n = 0 THEN [err |-> "", ok |-> FALSE, bud |-> bud1]
        ELSE IF sig.t = "sig" /\ sig.b[2] = 64 /\ (sig.n = 64 \/ sig.b[1] \in {1, 2, 3, 129, 130, 131})
                /\ key.t = "key" /\ key.b[1] = 32 /\ sig.k = key.k /\ sig.b[3] = (IF c.ax THEN 5 ELSE 2) /\ sig.b[4] = s.cs
                /\ ~SelfCovered(sig, c, script, script)
             THEN [err |-> "", ok |-> TRUE, bud |-> bud1]
        ELSE [err |-> "schnorr", ok |-> FALSE, bud |-> 0]     \* size, hash type or signature invalid
    ELSE IF Has(c, "DISCOURAGE_UPGRADABLE_PUBKEYTYPE")
         THEN [err |-> IF sig.n = 0 THEN "discouragepubkeytype-emptysig" ELSE "discouragepubkeytype", ok |-> FALSE, bud |-> 0]
    ELSE [err |-> "", ok |-> sig.n > 0, bud |-> bud1]           \* unknown key type: any non-empty signature passes

CheckSigTap(s, c, script) ==
    IF Depth(s) < 2 THEN Failed("stack")
    ELSE LET r == TapSigCheck(Peek(s, 1), Peek(s, 0), s, c, script) IN
         IF r.err # "" THEN Failed(r.err)
         ELSE [s EXCEPT !.st = Append(PopN(@, 2), BoolElem(r.ok)), !.bud = r.bud]

CheckSigAdd(s, c, script) ==
    IF c.sv # "tap" THEN Failed("badopcode")
    ELSE IF Depth(s) < 3 THEN Failed("stack")
    ELSE LET sig == Peek(s, 2)  num == Peek(s, 1)  key == Peek(s, 0)  ne == NumErr(num, c, 4) IN
         IF ne # "" THEN Failed(ne)
         ELSE LET r == TapSigCheck(sig, key, s, c, script) IN
              IF r.err # "" THEN Failed(r.err)
              ELSE [s EXCEPT !.st = Append(PopN(@, 3), Raw(EncodeSum(Num(num), IF r.ok THEN 1 ELSE 0))),
                             !.bud = r.bud]

\* OP_CHECKMULTISIG.  Stack: dummy sig_1..sig_m m key_1..key_n n (n on top)
RECURSIVE MultiLoop(_, _, _, _, _, _, _, _)
\* sigs, keys in evaluation order (first = nearest to the top); result "ok" / "fail" / error class
MultiLoop(sigs, keys, isig, ikey, s, c, script, code) ==
    LET nsig == Len(sigs) - isig + 1  nkey == Len(keys) - ikey + 1 IN
    IF nsig = 0 THEN "ok"
    ELSE IF nsig > nkey THEN "fail"
    ELSE LET sig == sigs[isig]  key == keys[ikey]
             se == SigEncErr(sig, c)  ke == KeyEncErr(key, c) IN
         IF se # "" THEN se
         ELSE IF ke # "" THEN (IF sig.n = 0 THEN ke \o "-emptysig" ELSE ke)
         ELSE IF EcdsaValid(sig, key, s, c, script, code) THEN MultiLoop(sigs, keys, isig + 1, ikey + 1, s, c, script, code)
         ELSE MultiLoop(sigs, keys, isig, ikey + 1, s, c, script, code)

CheckMultiSig(s, c, script, code) ==
    IF c.sv = "tap" THEN Failed("tapmultisig")
    ELSE IF Depth(s) < 1 THEN Failed("stack")
    ELSE LET ne == NumErr(Peek(s, 0), c, 4) IN
    IF ne # "" THEN Failed(ne)
    ELSE LET nk == Num(Peek(s, 0)) IN
    IF nk < 0 \/ nk > 20 THEN Failed("pubkeycount")
    ELSE IF s.ops + nk > 201 THEN Failed("opcount")
    ELSE IF Depth(s) < nk + 2 THEN Failed("stack")
    ELSE LET me == NumErr(Peek(s, nk + 1), c, 4) IN
    IF me # "" THEN Failed(me)
    ELSE LET ns == Num(Peek(s, nk + 1)) IN
    IF ns < 0 \/ ns > nk THEN Failed("sigcount")
    ELSE IF Depth(s) < nk + ns + 3 THEN Failed("stack")
    ELSE LET keys == [i \in 1..nk |-> Peek(s, i)]
             sigs == [i \in 1..ns |-> Peek(s, nk + 1 + i)]
             dummy == Peek(s, nk + ns + 2)
             found == c.sv = "base" /\ \E i \in 1..ns : SigInCode(sigs[i], code)
             res == MultiLoop(sigs, keys, 1, 1, s, c, script, code)
         IN
         IF found /\ Has(c, "CONST_SCRIPTCODE")
            THEN Failed(IF \E i \in 1..ns : sigs[i].n > 0 /\ SigInCode(sigs[i], code) THEN "findanddelete" ELSE "findanddelete-emptysig")
         ELSE IF res \notin {"ok", "fail"} THEN Failed(res)
         ELSE IF res = "fail" /\ Has(c, "NULLFAIL") /\ \E i \in 1..ns : sigs[i].n > 0 THEN Failed("nullfail")
         ELSE IF Has(c, "NULLDUMMY") /\ dummy.n > 0 THEN Failed("nulldummy")
         ELSE [s EXCEPT !.st = Append(PopN(@, nk + ns + 3), BoolElem(res = "ok")), !.ops = @ + nk]

\* the effect of an executed (or conditional) non-push opcode
Do(s, tok, c, exec, script, code) ==
    LET op == tok.op  d == Depth(s)  st == s.st IN
    CASE op = "OP_NOP" -> s
      [] op \in UpgradableNops -> IF Has(c, "DISCOURAGE_NOPS") THEN Failed("discouragenops") ELSE s
      [] op = "OP_CHECKLOCKTIMEVERIFY" -> CheckLockTime(s, c)
      [] op = "OP_CHECKSEQUENCEVERIFY" -> CheckSequence(s, c)
      [] op = "OP_IF"    -> DoIf(s, c, exec, FALSE)
      [] op = "OP_NOTIF" -> DoIf(s, c, exec, TRUE)
      [] op = "OP_ELSE"  -> IF Len(s.cond) = 0 THEN Failed("unbalanced")
                            ELSE [s EXCEPT !.cond[Len(s.cond)] = ~@]
      [] op = "OP_ENDIF" -> IF Len(s.cond) = 0 THEN Failed("unbalanced")
                            ELSE [s EXCEPT !.cond = SubSeq(@, 1, Len(@) - 1)]
      [] op = "OP_VERIFY" -> VerifyTop(s, "verify")
      [] op = "OP_RETURN" -> Failed("opreturn")
      [] op = "OP_TOALTSTACK" -> IF d < 1 THEN Failed("stack")
                                 ELSE [s EXCEPT !.st = PopN(@, 1), !.alt = Append(@, st[d])]
      [] op = "OP_FROMALTSTACK" -> IF Len(s.alt) < 1 THEN Failed("altstack")
                                   ELSE [s EXCEPT !.st = Append(@, s.alt[Len(s.alt)]),
                                                  !.alt = SubSeq(@, 1, Len(@) - 1)]
      [] op = "OP_2DROP" -> IF d < 2 THEN Failed("stack") ELSE WithStack(s, PopN(st, 2))
      [] op = "OP_2DUP"  -> IF d < 2 THEN Failed("stack") ELSE WithStack(s, st \o <<st[d - 1], st[d]>>)
      [] op = "OP_3DUP"  -> IF d < 3 THEN Failed("stack") ELSE WithStack(s, st \o <<st[d - 2], st[d - 1], st[d]>>)
      [] op = "OP_2OVER" -> IF d < 4 THEN Failed("stack") ELSE WithStack(s, st \o <<st[d - 3], st[d - 2]>>)
      [] op = "OP_2ROT"  -> IF d < 6 THEN Failed("stack")
                            ELSE WithStack(s, PopN(st, 6) \o <<st[d - 3], st[d - 2], st[d - 1], st[d], st[d - 5], st[d - 4]>>)
      [] op = "OP_2SWAP" -> IF d < 4 THEN Failed("stack")
                            ELSE WithStack(s, PopN(st, 4) \o <<st[d - 1], st[d], st[d - 3], st[d - 2]>>)
      [] op = "OP_IFDUP" -> IF d < 1 THEN Failed("stack")
                            ELSE IF AsBool(st[d]) THEN WithStack(s, Append(st, st[d])) ELSE s
      [] op = "OP_DEPTH" -> WithStack(s, Append(st, NumElem(d)))
      [] op = "OP_DROP"  -> IF d < 1 THEN Failed("stack") ELSE WithStack(s, PopN(st, 1))
      [] op = "OP_DUP"   -> IF d < 1 THEN Failed("stack") ELSE WithStack(s, Append(st, st[d]))
      [] op = "OP_NIP"   -> IF d < 2 THEN Failed("stack") ELSE WithStack(s, Append(PopN(st, 2), st[d]))
      [] op = "OP_OVER"  -> IF d < 2 THEN Failed("stack") ELSE WithStack(s, Append(st, st[d - 1]))
      [] op \in {"OP_PICK", "OP_ROLL"} ->
            IF d < 2 THEN Failed("stack")
            ELSE LET ne == NumErr(st[d], c, 4) IN
                 IF ne # "" THEN Failed(ne)
                 ELSE LET k == Num(st[d])  rest == PopN(st, 1) IN
                      IF k < 0 \/ k >= Len(rest) THEN Failed("stack")
                      ELSE LET x == rest[Len(rest) - k] IN
                           IF op = "OP_PICK" THEN WithStack(s, Append(rest, x))
                           ELSE WithStack(s, Append(SubSeq(rest, 1, Len(rest) - k - 1)
                                                    \o SubSeq(rest, Len(rest) - k + 1, Len(rest)), x))
      [] op = "OP_ROT"   -> IF d < 3 THEN Failed("stack") ELSE WithStack(s, PopN(st, 3) \o <<st[d - 1], st[d], st[d - 2]>>)
      [] op = "OP_SWAP"  -> IF d < 2 THEN Failed("stack") ELSE WithStack(s, PopN(st, 2) \o <<st[d], st[d - 1]>>)
      [] op = "OP_TUCK"  -> IF d < 2 THEN Failed("stack") ELSE WithStack(s, PopN(st, 2) \o <<st[d], st[d - 1], st[d]>>)
      [] op = "OP_SIZE"  -> IF d < 1 THEN Failed("stack") ELSE WithStack(s, Append(st, NumElem(st[d].n)))
      [] op = "OP_EQUAL" -> IF d < 2 THEN Failed("stack")
                            ELSE WithStack(s, Append(PopN(st, 2), BoolElem(st[d - 1] = st[d])))
      [] op = "OP_EQUALVERIFY" -> IF d < 2 THEN Failed("stack")
                                  ELSE IF st[d - 1] = st[d] THEN WithStack(s, PopN(st, 2)) ELSE Failed("equalverify")
      [] op = "OP_1ADD" -> Unary(s, c, LAMBDA v : Raw(EncodeSum(v, 1)))
      [] op = "OP_1SUB" -> Unary(s, c, LAMBDA v : Raw(EncodeSum(v, 0 - 1)))
      [] op = "OP_NEGATE" -> Unary(s, c, LAMBDA v : NumElem(0 - v))
      [] op = "OP_ABS" -> Unary(s, c, LAMBDA v : NumElem(Abs(v)))
      [] op = "OP_NOT" -> Unary(s, c, LAMBDA v : BoolElem(v = 0))
      [] op = "OP_0NOTEQUAL" -> Unary(s, c, LAMBDA v : BoolElem(v # 0))
      [] op = "OP_ADD" -> Binary(s, c, LAMBDA a, b : Raw(EncodeSum(a, b)))
      [] op = "OP_SUB" -> Binary(s, c, LAMBDA a, b : Raw(EncodeSum(a, 0 - b)))
      [] op = "OP_BOOLAND" -> Binary(s, c, LAMBDA a, b : BoolElem(a # 0 /\ b # 0))
      [] op = "OP_BOOLOR" -> Binary(s, c, LAMBDA a, b : BoolElem(a # 0 \/ b # 0))
      [] op = "OP_NUMEQUAL" -> Binary(s, c, LAMBDA a, b : BoolElem(a = b))
      [] op = "OP_NUMEQUALVERIFY" -> VerifyTop(Binary(s, c, LAMBDA a, b : BoolElem(a = b)), "numequalverify")
      [] op = "OP_NUMNOTEQUAL" -> Binary(s, c, LAMBDA a, b : BoolElem(a # b))
      [] op = "OP_LESSTHAN" -> Binary(s, c, LAMBDA a, b : BoolElem(a < b))
      [] op = "OP_GREATERTHAN" -> Binary(s, c, LAMBDA a, b : BoolElem(a > b))
      [] op = "OP_LESSTHANOREQUAL" -> Binary(s, c, LAMBDA a, b : BoolElem(a <= b))
      [] op = "OP_GREATERTHANOREQUAL" -> Binary(s, c, LAMBDA a, b : BoolElem(a >= b))
      [] op = "OP_MIN" -> Binary(s, c, LAMBDA a, b : NumElem(IF a < b THEN a ELSE b))
      [] op = "OP_MAX" -> Binary(s, c, LAMBDA a, b : NumElem(IF a > b THEN a ELSE b))
      [] op = "OP_WITHIN" ->
            IF d < 3 THEN Failed("stack")
            ELSE LET e1 == NumErr(st[d - 2], c, 4)  e2 == NumErr(st[d - 1], c, 4)  e3 == NumErr(st[d], c, 4) IN
                 IF e1 # "" THEN Failed(e1) ELSE IF e2 # "" THEN Failed(e2) ELSE IF e3 # "" THEN Failed(e3)
                 ELSE WithStack(s, Append(PopN(st, 3),
                          BoolElem(Num(st[d - 1]) <= Num(st[d - 2]) /\ Num(st[d - 2]) < Num(st[d]))))
      [] op \in {"OP_RIPEMD160", "OP_SHA1", "OP_SHA256", "OP_HASH160", "OP_HASH256"} ->
            IF d < 1 THEN Failed("stack")
            ELSE LET kind == CASE op = "OP_RIPEMD160" -> "ripemd160" [] op = "OP_SHA1" -> "sha1"
                               [] op = "OP_SHA256" -> "sha256" [] op = "OP_HASH160" -> "hash160"
                               [] op = "OP_HASH256" -> "hash256" IN
                 WithStack(s, Append(PopN(st, 1), HashOf(kind, st[d])))
      [] op = "OP_CODESEPARATOR" -> [s EXCEPT !.cs = s.pc]
      [] op = "OP_CHECKSIG" -> IF c.sv = "tap" THEN CheckSigTap(s, c, script) ELSE CheckSigLegacy(s, c, script, code)
      [] op = "OP_CHECKSIGVERIFY" ->
            VerifyTop(IF c.sv = "tap" THEN CheckSigTap(s, c, script) ELSE CheckSigLegacy(s, c, script, code), "checksigverify")
      [] op = "OP_CHECKSIGADD" -> CheckSigAdd(s, c, script)
      [] op = "OP_CHECKMULTISIG" -> CheckMultiSig(s, c, script, code)
      [] op = "OP_CHECKMULTISIGVERIFY" -> VerifyTop(CheckMultiSig(s, c, script, code), "checkmultisigverify")
      \* OP_VER, OP_VERIF, OP_VERNOTIF, OP_RESERVED*, undefined opcodes, OP_INVALIDOPCODE
      [] OTHER -> Failed("badopcode")

\* One step of EvalScript: token tok of script (at 1-based position s.pc + 1)
\* in state s under configuration c.  script is the whole running script
\* (needed for the signature script code only).
Exec(s, tok, c, script) ==
    LET exec == \A i \in 1..Len(s.cond) : s.cond[i]
        ops1 == IF IsCounted(tok) THEN s.ops + 1 ELSE s.ops      \* counted always, limited outside tapscript
        s1   == [s EXCEPT !.ops = ops1, !.pc = s.pc + 1]
        code == SubSeq(script, s.cs + 1, Len(script))
        r == IF tok.tr THEN Failed("badopcode")
             ELSE IF tok.op = "PUSH" /\ tok.e.n > 520 THEN Failed("pushsize")
             ELSE IF c.sv # "tap" /\ ops1 > 201 THEN Failed("opcount")
             ELSE IF tok.op \in Disabled THEN Failed("disabled")
             ELSE IF tok.op = "OP_CODESEPARATOR" /\ c.sv = "base" /\ Has(c, "CONST_SCRIPTCODE") THEN Failed("codeseparator")
             ELSE IF IsPushTok(tok) THEN
                  (IF ~exec THEN s1
                   ELSE IF Has(c, "MINIMALDATA") /\ ~MinimalPush(tok) THEN Failed("minimaldata")
                   ELSE [s1 EXCEPT !.st = Append(@, PushVal(tok))])
             ELSE IF exec \/ tok.op \in CondOps THEN Do(s1, tok, c, exec, script, code)
             ELSE s1
    IN IF r.err = "" /\ Len(r.st) + Len(r.alt) > 1000 THEN Failed("stacksize") ELSE r

\* what must hold when the last opcode of a script has been executed
EndOfScript(s) == IF s.err = "" /\ Len(s.cond) > 0 THEN Failed("unbalanced") ELSE s

\* a whole script from state s
RECURSIVE RunFrom(_, _, _, _)
RunFrom(s, i, c, script) ==
    IF s.err # "" THEN s
    ELSE IF i > Len(script) THEN EndOfScript(s)
    ELSE RunFrom(Exec(s, script[i], c, script), i + 1, c, script)

\* EvalScript: size limit, then the opcodes
Eval(st, c, script, budget) ==
    IF c.sv # "tap" /\ ScriptLen(script) > 10000 THEN Failed("scriptsize")
    ELSE RunFrom(VM0(st, budget), 1, c, script)
=============================================================================
