------------------------------- MODULE Musig2 -------------------------------
(***************************************************************************)
(* C11, MuSig2 clauses: BIP327 key aggregation, tweaking, nonce            *)
(* aggregation, partial signing / verification and signature aggregation,  *)
(* together with the per-signer session discipline of                      *)
(* btcec/schnorr/musig2 (Context / Session: register nonces, sign once,    *)
(* collect partial signatures).                                            *)
(*                                                                         *)
(* The group is a TOY prime-order group (Z_Q, +) with generator 1: a point *)
(* is its discrete logarithm, scalar multiplication is multiplication mod  *)
(* Q.  has_even_y is modelled by Even(P) = (P <= (Q-1)/2): exactly one of  *)
(* P, -P is even, which is the only property of y-parity BIP327 uses; the  *)
(* x-coordinate is X(P) = min(P, Q-P), lift_x(x) = x.  Plain public keys   *)
(* are points (P and -P are different keys with the same x-only key).      *)
(* Hash functions are random oracles queried at one point per session:     *)
(* the key aggregation coefficient of each distinct key, the nonce         *)
(* coefficient b and the challenge e are chosen nondeterministically.      *)
(*                                                                         *)
(* TLC checks on the toy group, for every signer multiset (duplicates,     *)
(* negated keys), ordering, tweak chain and nonce choice of the            *)
(* configuration, that honest partial signatures verify, that the          *)
(* aggregated signature satisfies the BIP340 equation under the tweaked    *)
(* aggregate key exactly when no partial was corrupted and the aggregate   *)
(* nonce R' is not the point at infinity, that a corrupted partial never   *)
(* verifies and that no session signs twice with one nonce.  Behaviours    *)
(* are then replayed into the real package (same duplicate / negation      *)
(* structure of the keys, ordering, sort flag, tweak kinds, degenerate     *)
(* nonce sums, corruptions and call order); what every call must return    *)
(* is read from `last`.                                                    *)
(***************************************************************************)
EXTENDS Naturals, Sequences, FiniteSets

CONSTANTS Q,            \* toy group order, a prime >= 5
          MaxSigners,   \* 1..3
          MaxTweaks,    \* 0..2
          KeyVals,      \* private keys, subset of 1..Q-1
          CoefVals,     \* key aggregation coefficients, subset of 0..Q-1
          TweakVals,    \* subset of 0..Q-1
          Nonce1Vals, Nonce2Vals,   \* secret nonces, subsets of 1..Q-1
          BVals, EVals, \* subsets of 0..Q-1
          SortVals,     \* subset of BOOLEAN
          Apis,         \* subset of {"session", "raw"}
          TapApis,      \* subset of {"generic", "taproot", "bip86"}
          Faults,       \* TRUE: partial signatures may be corrupted in transit
          MaxNoise      \* refused calls and stand-alone verifications per behaviour

VARIABLES phase,  \* "keys" "vals" "coef" "tweaks" "nonces" "hash" "run" "done"
          api,    \* which API the behaviour exercises
          keys,   \* position -> key id; ids are introduced in the order 1, 2, 3
          d,      \* key id -> private key (0: unused id)
          sort,   \* the keys are sorted before aggregation
          a,      \* key id -> aggregation coefficient drawn from the oracle
          tw,     \* tweak chain: sequence of <<is_xonly, t>>
          tapi,   \* how a single x-only tweak is given to the package
          agg,    \* key aggregation context [ok, Q, gacc, tacc, step]
          k,      \* position -> <<k1, k2>> secret nonce pair
          b, e,   \* nonce coefficient and challenge
          sess,   \* position -> session state of that signer
          psig,   \* position -> partial signature (Q: none yet)
          noise,  \* refusals / verifications still allowed
          last    \* the call just made and what it must return

vars == <<phase, api, keys, d, sort, a, tw, tapi, agg, k, b, e, sess, psig, noise, last>>

(* ---------------- toy group --------------------------------------------- *)
Zq        == 0 .. Q-1
Add(x, y) == (x + y) % Q
Mul(x, y) == (x * y) % Q
Neg(x)    == (Q - x) % Q
X(P)      == IF P <= Q - P THEN P ELSE Q - P
Even(P)   == P # 0 /\ 2 * P <= Q - 1
MinusOne  == Q - 1

U      == Len(keys)
Pos    == 1 .. U
Pk(p)  == d[keys[p]]                       \* plain public key of position p (a point)

RECURSIVE SumTo(_, _)
SumTo(f, n) == IF n = 0 THEN 0 ELSE Add(f[n], SumTo(f, n - 1))

(* ---------------- BIP327 KeyAgg ----------------------------------------- *)
\* order of the 33-byte encodings: 02.. before 03.., then by x
Rank(P) == IF Even(P) THEN X(P) ELSE Q + X(P)
KeySet  == {Pk(p) : p \in Pos}
MinRank(S) == CHOOSE P \in S : \A P2 \in S : Rank(P) <= Rank(P2)
FirstKey  == IF sort THEN MinRank(KeySet) ELSE Pk(1)
\* GetSecondKey: the first key of the list that differs from the first one (0: none)
SecondKey ==
    IF KeySet = {FirstKey} THEN 0
    ELSE IF sort THEN MinRank(KeySet \ {FirstKey})
    ELSE Pk(CHOOSE j \in Pos : Pk(j) # Pk(1) /\ \A i \in 1 .. j-1 : Pk(i) = Pk(1))

IdOf(P)  == CHOOSE i \in 1 .. 3 : d[i] = P
\* KeyAggCoeffInternal: 1 for the second key, the oracle's value otherwise
Coef(P)  == IF P = SecondKey THEN 1 ELSE a[IdOf(P)]
AggPoint == SumTo([p \in Pos |-> Mul(Coef(Pk(p)), Pk(p))], U)

\* ApplyTweak
TweakG(Qc, xo)  == IF xo /\ ~Even(Qc) THEN MinusOne ELSE 1
ApplyTweak(c, xo, t) ==
    LET g  == TweakG(c.Q, xo)
        Qn == Add(Mul(g, c.Q), t)
    IN  IF Qn = 0
        THEN [ok |-> FALSE, Q |-> 0, gacc |-> c.gacc, tacc |-> c.tacc, step |-> c.step + 1]
        ELSE [ok |-> TRUE, Q |-> Qn, gacc |-> Mul(g, c.gacc), tacc |-> Add(t, Mul(g, c.tacc)), step |-> c.step + 1]

RECURSIVE ApplyAll(_, _)
ApplyAll(c, ts) ==
    IF ts = <<>> \/ ~c.ok THEN c
    ELSE ApplyAll(ApplyTweak(c, ts[1][1], ts[1][2]), Tail(ts))

KeyAggCtx ==
    IF AggPoint = 0
    THEN [ok |-> FALSE, Q |-> 0, gacc |-> 1, tacc |-> 0, step |-> 0]      \* "Fail if is_infinite(Q)"
    ELSE ApplyAll([ok |-> TRUE, Q |-> AggPoint, gacc |-> 1, tacc |-> 0, step |-> 0], tw)

(* ---------------- nonces, session values -------------------------------- *)
R1 == SumTo([p \in Pos |-> k[p][1]], U)                \* NonceAgg
R2 == SumTo([p \in Pos |-> k[p][2]], U)
Rprime == Add(R1, Mul(b, R2))
Rfin   == IF Rprime = 0 THEN 1 ELSE Rprime             \* "if is_infinite(R'): R = G"
GQ     == IF Even(agg.Q) THEN 1 ELSE MinusOne

\* Sign: s = k1 + b k2 + e a d with k negated for odd R and d = g gacc d'
PartialSig(p) ==
    LET k1 == IF Even(Rfin) THEN k[p][1] ELSE Neg(k[p][1])
        k2 == IF Even(Rfin) THEN k[p][2] ELSE Neg(k[p][2])
        dd == Mul(Mul(GQ, agg.gacc), Pk(p))
    IN  Add(Add(k1, Mul(b, k2)), Mul(Mul(e, Coef(Pk(p))), dd))

\* PartialSigVerifyInternal for the signature s of position p
PartialVerify(p, s) ==
    LET Rep == Add(k[p][1], Mul(b, k[p][2]))
        Re  == IF Even(Rfin) THEN Rep ELSE Neg(Rep)
    IN  s = Add(Re, Mul(Mul(Mul(e, Coef(Pk(p))), Mul(GQ, agg.gacc)), Pk(p)))

\* PartialSigAgg over the given position -> signature function
FinalS(sigs) == Add(SumTo(sigs, U), Mul(Mul(e, GQ), agg.tacc))

\* BIP340 verification of (x(R), s) under the x-only key of Q
FinalValid(s) ==
    LET Rv == Add(s, Neg(Mul(e, X(agg.Q)))) IN Rv # 0 /\ Even(Rv) /\ Rv = X(Rfin)

(* ---------------- shapes the binder realises ----------------------------- *)
\* which sums of public nonces are the point at infinity
NonceShape == IF R1 = 0 /\ R2 = 0 THEN "bothinf"
              ELSE IF R1 = 0 THEN "r1inf"
              ELSE IF R2 = 0 THEN "r2inf"
              ELSE "generic"
\* pairs of key ids whose keys are negations of each other (P_j = -P_i)
NegPairsOf(dd) == {<<i, j>> \in (1..3) \X (1..3) : i < j /\ dd[i] # 0 /\ dd[j] # 0 /\ dd[i] = Neg(dd[j])}

(* ---------------- behaviour ---------------------------------------------- *)
NoSess  == [regd |-> {}, comb |-> FALSE, signed |-> FALSE, got |-> {}, bad |-> {}, fin |-> "none"]
NoAgg   == [ok |-> FALSE, Q |-> 0, gacc |-> 1, tacc |-> 0, step |-> 0]
Call(act, p, j, res) == [act |-> act, p |-> p, j |-> j, res |-> res]

Init ==
    /\ phase = "keys" /\ api \in Apis /\ sort \in SortVals
    /\ keys = <<>> /\ d = <<0, 0, 0>> /\ a = <<1, 1, 1>> /\ tw = <<>> /\ tapi = "generic"
    /\ agg = NoAgg /\ k = <<>> /\ b = 0 /\ e = 0 /\ sess = <<>> /\ psig = <<>>
    /\ noise = MaxNoise
    /\ last = Call("Init", 0, 0, "-")

\* signer multiset shape: a restricted growth string (ids in order of first use)
Shapes == {<<1>>} \cup (IF MaxSigners >= 2 THEN {<<1, 1>>, <<1, 2>>} ELSE {})
          \cup (IF MaxSigners >= 3 THEN {<<1, 1, 1>>, <<1, 1, 2>>, <<1, 2, 1>>, <<1, 2, 2>>, <<1, 2, 3>>} ELSE {})

ChooseKeys ==
    /\ phase = "keys"
    /\ \E s \in Shapes : keys' = s
    /\ phase' = "vals" /\ last' = Call("ChooseKeys", 0, 0, "-")
    /\ UNCHANGED <<api, d, sort, a, tw, tapi, agg, k, b, e, sess, psig, noise>>

NumIds == IF \E p \in Pos : keys[p] = 3 THEN 3 ELSE IF \E p \in Pos : keys[p] = 2 THEN 2 ELSE 1

\* distinct ids are distinct keys
ChooseVals ==
    /\ phase = "vals"
    /\ \E v \in [1 .. 3 -> KeyVals \cup {0}] :
         /\ \A i \in 1 .. 3 : (v[i] # 0) = (i <= NumIds)
         /\ \A i, j \in 1 .. NumIds : i # j => v[i] # v[j]
         /\ d' = <<v[1], v[2], v[3]>>
    /\ phase' = "coef" /\ last' = Call("ChooseVals", 0, 0, NegPairsOf(d'))
    /\ UNCHANGED <<api, keys, sort, a, tw, tapi, agg, k, b, e, sess, psig, noise>>

\* the oracle's coefficient for every key that is not the second key
ChooseCoef ==
    /\ phase = "coef"
    /\ \E v \in [1 .. 3 -> CoefVals \cup {1}] :
         /\ \A i \in 1 .. 3 : (i > NumIds \/ d[i] = SecondKey) => v[i] = 1
         /\ a' = <<v[1], v[2], v[3]>>
    /\ phase' = "tweaks" /\ last' = Call("ChooseCoef", 0, 0, "-")
    /\ UNCHANGED <<api, keys, d, sort, tw, tapi, agg, k, b, e, sess, psig, noise>>

AddTweak ==
    /\ phase = "tweaks" /\ Len(tw) < MaxTweaks
    /\ \E xo \in BOOLEAN, t \in TweakVals : tw' = Append(tw, <<xo, t>>)
    /\ last' = Call("AddTweak", 0, 0, "-")
    /\ UNCHANGED <<phase, api, keys, d, sort, a, tapi, agg, k, b, e, sess, psig, noise>>

\* KeyAgg + ApplyTweak*: every signer computes the same context
Setup ==
    /\ phase = "tweaks"
    /\ \E ta \in TapApis :
         /\ ta # "generic" => (Len(tw) = 1 /\ tw[1][1])
         /\ tapi' = ta
    /\ agg' = KeyAggCtx
    /\ IF KeyAggCtx.ok
       THEN /\ phase' = "nonces" /\ last' = Call("Setup", 0, 0, "ok")
       ELSE /\ phase' = "done"
            /\ last' = Call("Setup", 0, KeyAggCtx.step,
                            IF KeyAggCtx.step = 0 THEN "fail:aggregate-infinity" ELSE "fail:tweak-infinity")
    /\ UNCHANGED <<api, keys, d, sort, a, tw, k, b, e, sess, psig, noise>>

\* NonceGen of the next signer
GenNonce ==
    /\ phase = "nonces" /\ Len(k) < U
    /\ \E k1 \in Nonce1Vals, k2 \in Nonce2Vals : k' = Append(k, <<k1, k2>>)
    /\ last' = Call("GenNonce", Len(k) + 1, 0, "-")
    /\ UNCHANGED <<phase, api, keys, d, sort, a, tw, tapi, agg, b, e, sess, psig, noise>>

NoncesDone ==
    /\ phase = "nonces" /\ Len(k) = U
    /\ phase' = "hash" /\ last' = Call("NoncesDone", 0, 0, NonceShape)
    /\ UNCHANGED <<api, keys, d, sort, a, tw, tapi, agg, k, b, e, sess, psig, noise>>

\* the oracle answers for b and e
ChooseHash ==
    /\ phase = "hash"
    /\ b' \in BVals /\ e' \in EVals
    /\ phase' = "run"
    /\ sess' = [p \in Pos |-> [NoSess EXCEPT !.regd = {p}]]
    /\ psig' = [p \in Pos |-> Q]
    /\ last' = Call("ChooseHash", 0, 0, IF Add(R1, Mul(b', R2)) = 0 THEN "rprime-infinity" ELSE "-")
    /\ UNCHANGED <<api, keys, d, sort, a, tw, tapi, agg, k, noise>>

(* ---- raw API: one evaluation of Sign / Verify / CombineSigs ------------- *)
\* j = the position whose partial signature is corrupted in transit (0: none)
Evaluate ==
    /\ phase = "run" /\ api = "raw"
    /\ \E j \in (IF Faults THEN 0 .. U ELSE {0}) :
         LET honest == [p \in Pos |-> PartialSig(p)]
             sent   == [p \in Pos |-> IF p = j THEN Add(honest[p], 1) ELSE honest[p]]
         IN  /\ psig' = sent
             /\ last' = Call("Evaluate", 0, j,
                             [pv  |-> [p \in Pos |-> PartialVerify(p, sent[p])],
                              fin |-> FinalValid(FinalS(sent))])
    /\ phase' = "done"
    /\ UNCHANGED <<api, keys, d, sort, a, tw, tapi, agg, k, b, e, sess, noise>>

(* ---- Context / Session API ----------------------------------------------- *)
HaveAllNonces(p) == Cardinality(sess[p].regd) = U

\* calls that change nothing (refusals, verifications) are bounded per behaviour
Quiet(act, p, j, res) ==
    /\ noise > 0 /\ noise' = noise - 1
    /\ last' = Call(act, p, j, res)
    /\ UNCHANGED <<sess, psig>>

\* KeyAgg / ApplyTweak are FUNCTIONS of the key list and the tweak chain: asking
\* again with the very same arguments (the same option values: they are not
\* consumed by a call) gives the same context, at any later time.
AggregateAgain ==
    /\ phase \in {"nonces", "run"}
    /\ Quiet("AggregateKeysAgain", 0, 0, IF KeyAggCtx = agg THEN "same" ELSE "different")
    /\ UNCHANGED <<phase, api, keys, d, sort, a, tw, tapi, agg, k, b, e>>

\* Session.RegisterPubNonce: p is given the public nonce of j
RegisterPubNonce(p, j) ==
    /\ phase = "run" /\ api = "session" /\ p # j /\ j \notin sess[p].regd
    /\ IF HaveAllNonces(p) \/ sess[p].comb
       THEN Quiet("RegisterPubNonce", p, j, "refused:have-all-nonces")
       ELSE LET regd == sess[p].regd \cup {j}
                all  == Cardinality(regd) = U
            IN  /\ sess' = [sess EXCEPT ![p].regd = regd, ![p].comb = all]
                /\ last' = Call("RegisterPubNonce", p, j, IF all THEN "have-all" ELSE "more")
                /\ UNCHANGED <<psig, noise>>
    /\ UNCHANGED <<phase, api, keys, d, sort, a, tw, tapi, agg, k, b, e>>

\* Session.RegisterCombinedNonce: p is given the aggregate nonce by a coordinator.
\* BIP327 admits an aggregate nonce with a half at infinity (cbytes_ext); this
\* entry point is specified for finite halves only (left free otherwise).
RegisterCombinedNonce(p) ==
    /\ phase = "run" /\ api = "session" /\ NonceShape = "generic"
    /\ IF sess[p].comb
       THEN Quiet("RegisterCombinedNonce", p, 0, "refused:have-all-nonces")
       ELSE IF Cardinality(sess[p].regd) > 1
       THEN Quiet("RegisterCombinedNonce", p, 0, "refused:after-pub-nonces")
       ELSE /\ sess' = [sess EXCEPT ![p].comb = TRUE]
            /\ last' = Call("RegisterCombinedNonce", p, 0, "ok")
            /\ UNCHANGED <<psig, noise>>
    /\ UNCHANGED <<phase, api, keys, d, sort, a, tw, tapi, agg, k, b, e>>

\* Session.Sign: at most one signature per secret nonce
SessionSign(p) ==
    /\ phase = "run" /\ api = "session"
    /\ IF sess[p].signed
       THEN Quiet("Sign", p, 0, "refused:nonce-reuse")
       ELSE IF ~sess[p].comb
       THEN Quiet("Sign", p, 0, "refused:no-combined-nonce")
       ELSE /\ psig' = [psig EXCEPT ![p] = PartialSig(p)]
            /\ sess' = [sess EXCEPT ![p].signed = TRUE, ![p].got = @ \cup {p}]
            /\ last' = Call("Sign", p, 0, "ok")
            /\ UNCHANGED noise
    /\ UNCHANGED <<phase, api, keys, d, sort, a, tw, tapi, agg, k, b, e>>

\* PartialSignature.Verify by p of the partial signature of j (possibly corrupted)
SessionVerify(p, j, corrupt) ==
    /\ phase = "run" /\ api = "session" /\ psig[j] # Q /\ sess[p].comb
    /\ Quiet(IF corrupt THEN "VerifyCorrupted" ELSE "Verify", p, j,
             IF PartialVerify(j, IF corrupt THEN Add(psig[j], 1) ELSE psig[j]) THEN "true" ELSE "false")
    /\ UNCHANGED <<phase, api, keys, d, sort, a, tw, tapi, agg, k, b, e>>

\* Session.CombineSig: p (which has signed) is given the partial signature of j
CombineSig(p, j, corrupt) ==
    /\ phase = "run" /\ api = "session" /\ p # j /\ psig[j] # Q /\ sess[p].signed
    /\ j \notin sess[p].got
    /\ IF Cardinality(sess[p].got) = U
       THEN Quiet("CombineSig", p, j, "refused:have-all-sigs")
       ELSE LET got  == sess[p].got \cup {j}
                bad  == IF corrupt THEN sess[p].bad \cup {j} ELSE sess[p].bad
                all  == Cardinality(got) = U
                \* the partial signatures p holds: its own and what it was given
                held == [q \in Pos |-> IF q \in bad THEN Add(psig[q], 1) ELSE psig[q]]
                ok   == FinalValid(FinalS(held))
            IN  /\ sess' = [sess EXCEPT ![p].got = got, ![p].bad = bad,
                                        ![p].fin = IF ~all THEN "none" ELSE IF ok THEN "valid" ELSE "invalid"]
                /\ last' = Call(IF corrupt THEN "CombineCorrupted" ELSE "CombineSig", p, j,
                                IF ~all THEN "more" ELSE IF ok THEN "final-valid" ELSE "final-invalid")
                /\ UNCHANGED <<psig, noise>>
    /\ UNCHANGED <<phase, api, keys, d, sort, a, tw, tapi, agg, k, b, e>>

RegisterPubNonceA      == \E p \in Pos, j \in Pos : RegisterPubNonce(p, j)
RegisterCombinedNonceA == \E p \in Pos : RegisterCombinedNonce(p)
SessionSignA           == \E p \in Pos : SessionSign(p)
SessionVerifyA         == \E p \in Pos, j \in Pos, c \in (IF Faults THEN BOOLEAN ELSE {FALSE}) : SessionVerify(p, j, c)
CombineSigA            == \E p \in Pos, j \in Pos, c \in (IF Faults THEN BOOLEAN ELSE {FALSE}) : CombineSig(p, j, c)

Next == \/ ChooseKeys \/ ChooseVals \/ ChooseCoef \/ AddTweak \/ Setup \/ GenNonce \/ NoncesDone \/ ChooseHash
        \/ Evaluate \/ AggregateAgain
        \/ RegisterPubNonceA \/ RegisterCombinedNonceA \/ SessionSignA \/ SessionVerifyA \/ CombineSigA

(* ---------------- properties -------------------------------------------- *)
Running == phase \in {"run", "done"} /\ agg.ok /\ psig # <<>>

\* every honest partial signature verifies (PartialSigVerify o Sign)
HonestPartialsVerify ==
    Running => \A p \in Pos : PartialVerify(p, PartialSig(p))

\* a partial signature changed in transit never verifies
CorruptedPartialRejected ==
    Running => \A p \in Pos, dl \in 1 .. Q-1 : ~PartialVerify(p, Add(PartialSig(p), dl))

\* the aggregate of the honest partial signatures is a BIP340 signature under
\* the tweaked aggregate key, unless the aggregate nonce was the point at infinity
AggregateVerifies ==
    Running => (FinalValid(FinalS([p \in Pos |-> PartialSig(p)])) <=> Rprime # 0)

\* ... and one corrupted partial signature always breaks it (for R' at infinity
\* the final nonce is G and the honest aggregate is off by exactly G: there,
\* and only there, adding 1 to a partial signature repairs it)
CorruptedAggregateFails ==
    (Running /\ Rprime # 0) => \A j \in Pos :
        ~FinalValid(FinalS([p \in Pos |-> IF p = j THEN Add(PartialSig(p), 1) ELSE PartialSig(p)]))

\* what the raw evaluation reported is what the equations say
EvaluateSound ==
    (last.act = "Evaluate") =>
        /\ \A p \in Pos : last.res.pv[p] = (p # last.j)
        /\ Rprime # 0 => last.res.fin = (last.j = 0)
        /\ (Rprime = 0 /\ last.j = 0) => ~last.res.fin

\* session discipline: a session holds a final signature only when it was
\* given every partial signature uncorrupted, and then it is valid
SessionFinalSound ==
    (phase = "run" /\ api = "session") =>
        \A p \in Pos :
            /\ sess[p].fin = "valid" => Cardinality(sess[p].got) = U
            /\ (sess[p].fin = "valid" /\ Rprime # 0) => sess[p].bad = {}
            /\ (sess[p].fin = "valid" /\ Rprime = 0) => sess[p].bad # {}
            /\ sess[p].fin = "invalid" => (sess[p].bad # {} \/ Rprime = 0)
            /\ sess[p].signed => sess[p].comb
            /\ (psig[p] # Q) = sess[p].signed

\* a secret nonce is used for at most one partial signature: Sign succeeds at
\* most once per session (action property)
SignOnce ==
    [][\A p \in 1 .. Len(sess) :
          (last'.act = "Sign" /\ last'.p = p /\ last'.res = "ok") => (Len(sess) = Len(sess') /\ ~sess[p].signed)]_vars

\* the tweak accumulators describe the tweaked key: Q = gacc * Q0 + tacc * G
AccumulatorsSound ==
    (agg.ok /\ phase # "keys" /\ phase # "vals" /\ phase # "coef" /\ phase # "tweaks") =>
        agg.Q = Add(Mul(agg.gacc, AggPoint), agg.tacc)

\* the stored context is what KeyAgg + ApplyTweak give for the arguments, always
AggregateIsFunction ==
    (phase \notin {"keys", "vals", "coef", "tweaks"}) => agg = KeyAggCtx

TypeOK ==
    /\ phase \in {"keys", "vals", "coef", "tweaks", "nonces", "hash", "run", "done"}
    /\ Len(keys) <= MaxSigners /\ Len(tw) <= MaxTweaks
    /\ b \in Zq /\ e \in Zq
=============================================================================
