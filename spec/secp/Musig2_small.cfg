CONSTANTS
  Q = 5
  MaxSigners = 2
  MaxTweaks = 2
  KeyVals = {1, 2, 3, 4}
  CoefVals = {0, 1, 2, 3, 4}
  TweakVals = {1, 3}
  Nonce1Vals = {1, 2, 3, 4}
  Nonce2Vals = {1, 2}
  BVals = {0, 1, 2, 3, 4}
  EVals = {0, 2}
  SortVals = {FALSE}
  Apis = {"raw"}
  TapApis = {"generic"}
  Faults = FALSE
INIT Init
NEXT Next
INVARIANTS TypeOK HonestPartialsVerify CorruptedPartialRejected AggregateVerifies CorruptedAggregateFails EvaluateSound SessionFinalSound AccumulatorsSound
PROPERTY SignOnce
