CONSTANTS Instances = 1
INIT Init
NEXT Next
INVARIANTS TypeOK RangeSound StrictDecided ReserSound
