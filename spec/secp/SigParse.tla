------------------------------ MODULE SigParse ------------------------------
(***************************************************************************)
(* C11, parser clauses: which byte strings the signature and public key    *)
(* parsers of btcec must admit, what they must decode to, and what the     *)
(* serialisers must give back.                                             *)
(*                                                                         *)
(* One behaviour = one case: Init picks a case (parser, encoding shape,    *)
(* value classes of the numbers inside), Judge writes the verdict the      *)
(* DEFINING RULES give into `expect`:                                      *)
(*   - DER (X.690 / BIP66 items 1-13, without the sighash byte) for the    *)
(*     strict ECDSA parser, ECDSA range 1 <= r,s <= n-1 (SEC1 4.1.4),       *)
(*     low S (BIP62 / BIP146) for VerifyLowS;                              *)
(*   - BIP340: 64 bytes, r < p, s < n; public key 32 bytes, x < p, x on    *)
(*     the curve, the key IS the even-y point;                             *)
(*   - SEC1 2.3.4 / X9.62 4.3.6 for 33/65-byte public keys, hybrid form    *)
(*     with its parity check.                                              *)
(* Numbers are boundary classes; the binder turns a class into bytes       *)
(* (several random draws for the open classes) and calls the real parser.  *)
(* The lax ("BER") ECDSA parser has no normative definition: where DER     *)
(* forbids an encoding that still denotes a pair (r, s), its verdict is    *)
(* "may" - if the real parser accepts, it must decode exactly that pair.   *)
(***************************************************************************)
EXTENDS Naturals, FiniteSets

CONSTANTS Instances

VARIABLES c, expect

vars == <<c, expect>>

NA == "-"

(* ---------------- value classes ---------------------------------------- *)
\* 256-bit (or 257-bit) integers relative to the group order n and the field
\* prime p (n < p < 2^256):
\*   zero 0 | one 1 | mid random in [2^200, (n-1)/2), top bit of the top byte clear
\*   half (n-1)/2 (largest low S) | halfp1 (n+1)/2 (top byte 7f) | hi random in [2^255, n-1), top bit set
\*   nm1 n-1 | n | np1 n+1 | pm1 p-1 | p | max 2^256-1 | big 2^256 (33 significant bytes)
\* small values, for the short DER contents: v7f 127 (one byte 7f) | v80 128 (DER 00 80, one byte 80
\*   reads as negative) | vff 255 (DER 00 ff) | v8000 32768 (DER 00 80 00, two bytes 80 00 negative)
SmallInts  == {"v7f", "v80", "vff", "v8000"}
IntClasses == {"zero", "one", "mid", "half", "halfp1", "hi", "nm1", "n", "np1", "pm1", "p", "max", "big"} \cup SmallInts

BelowN(v)  == v \in {"zero", "one", "mid", "half", "halfp1", "hi", "nm1"} \cup SmallInts
BelowP(v)  == BelowN(v) \/ v \in {"n", "np1", "pm1"}
InRange(v) == BelowN(v) /\ v # "zero"                \* 1 .. n-1
LowS(v)    == v \in {"one", "mid", "half"} \cup SmallInts   \* 1 .. (n-1)/2
HighBit(v) == v \in {"hi", "nm1", "n", "np1", "pm1", "p", "max", "v80", "vff", "v8000"}   \* top byte of the magnitude >= 0x80
Fits32(v)  == v # "big"

(* ---------------- ECDSA signature encodings ---------------------------- *)
\* ok          30 L 02 lr R 02 ls S, minimal two's complement contents
\* tag_seq     first byte 31            tag_r / tag_s   integer tag 03
\* len_plus1   L one more than the bytes that follow
\* len_minus1  L one less (the last byte of S falls outside the sequence)
\* trailing1   one byte after a complete sequence     trailing_long  80 bytes after it
\* len_long    L in long form 81 LL
\* rlen0/slen0 zero-length integer
\* r_nopad/s_nopad  content without the 00 a set top bit needs (reads as negative)
\* r_pad/s_pad      one 00 more than needed
\* rlen_over   lr so large that no room is left for S
\* slen_plus1  ls one more than the bytes left     slen_minus1  ls one less (a byte is left over)
\* short7      a well-formed prefix cut to 7 bytes  empty  no bytes
DerShapes == {"ok", "tag_seq", "tag_r", "tag_s", "len_plus1", "len_minus1", "trailing1", "trailing_long",
              "len_long", "rlen0", "slen0", "r_nopad", "s_nopad", "r_pad", "s_pad", "rlen_over",
              "slen_plus1", "slen_minus1", "short7", "empty"}

\* shapes that are not DER but still denote the pair (r, s) for a BER reader
BerOnly == {"trailing1", "trailing_long", "len_long", "r_nopad", "s_nopad", "r_pad", "s_pad"}

\* r_nopad differs from ok only when the top bit is set
Applicable(shape, rc, sc) ==
    /\ shape = "r_nopad" => HighBit(rc)
    /\ shape = "s_nopad" => HighBit(sc)
    /\ shape \in {"r_nopad", "s_nopad", "r_pad", "s_pad"} => (Fits32(rc) /\ Fits32(sc))

EcdsaParsers == {"ecdsa.der", "ecdsa.lax", "ecdsa.lows"}

EcdsaCases ==
    {[parser |-> pr, shape |-> sh, rc |-> r, sc |-> s, xc |-> NA, inst |-> i] :
        pr \in EcdsaParsers, sh \in {"ok"}, r \in IntClasses, s \in IntClasses, i \in 1..Instances}
    \cup
    {x \in {[parser |-> pr, shape |-> sh, rc |-> r, sc |-> s, xc |-> NA, inst |-> i] :
                pr \in EcdsaParsers, sh \in DerShapes \ {"ok"}, r \in {"mid", "hi", "nm1", "n"},
                s \in {"mid", "half", "halfp1", "nm1", "zero"}, i \in 1..Instances} :
        Applicable(x.shape, x.rc, x.sc)}
    \cup
    \* padding rules on SHORT integers, R and S independently: one byte 80 / ff (negative),
    \* 00 7f, 00 00, 00 01 (over-padded), 00 00 80 (over-padded), 80 00 (negative) ...
    {x \in {[parser |-> pr, shape |-> sh, rc |-> r, sc |-> s, xc |-> NA, inst |-> i] :
                pr \in EcdsaParsers, sh \in {"r_nopad", "s_nopad", "r_pad", "s_pad"},
                r \in SmallInts \cup {"zero", "one", "mid"}, s \in SmallInts \cup {"zero", "one", "mid"}, i \in 1..Instances} :
        Applicable(x.shape, x.rc, x.sc)}

EcdsaVerdict(pr, sh, r, s) ==
    LET rng == InRange(r) /\ InRange(s) IN
    CASE pr = "ecdsa.der"  -> IF sh = "ok" /\ rng THEN "accept" ELSE "reject"
      [] pr = "ecdsa.lows" -> IF sh = "ok" /\ rng /\ LowS(s) THEN "accept" ELSE "reject"
      [] pr = "ecdsa.lax"  -> IF ~rng THEN "reject"
                              ELSE IF sh = "ok" THEN "accept"
                              ELSE IF sh \in BerOnly THEN "may"
                              ELSE "reject"

\* Signature.Serialize is documented to emit canonical DER with S in low form:
\* the bytes come back unchanged exactly for a DER input whose S is low.
EcdsaReser(sh, s) == IF sh = "ok" /\ LowS(s) THEN "same" ELSE "canon_lows"

(* ---------------- BIP340 signature ------------------------------------- *)
SchnorrSigShapes == {"ok", "len63", "len65", "empty"}
SchnorrSigCases ==
    {[parser |-> "schnorr.sig", shape |-> sh, rc |-> r, sc |-> s, xc |-> NA, inst |-> i] :
        sh \in SchnorrSigShapes, r \in IntClasses \ {"big"}, s \in IntClasses \ {"big"}, i \in 1..Instances}

SchnorrSigVerdict(sh, r, s) == IF sh = "ok" /\ BelowP(r) /\ BelowN(s) THEN "accept" ELSE "reject"

(* ---------------- public keys ------------------------------------------ *)
\* x classes: onc random x of a curve point | offc random x < p of no curve point
\*   zero x = 0 (7 is not a square mod p: no such point)
\*   p x = p | pplus x = p + x0 with x0 < 2^256 - p the abscissa of a curve point | max 2^256-1
\*   ysmall a curve point whose y is below 2^256 - p (so that y + p still fits 32 bytes)
XClasses == {"onc", "offc", "zero", "p", "pplus", "max", "ysmall"}
XOnCurve(x) == x \in {"onc", "ysmall"}        \* and x < p

\* forms (33 or 65 bytes unless the name says otherwise; y is the y of the point with that x)
\*   comp_even 02 x | comp_odd 03 x | uncomp 04 x y | uncomp_neg 04 x (p - y)
\*   uncomp_ybad 04 x (y+1) | uncomp_yplusp 04 x (y+p)  (ysmall only)
\*   hybrid_ok 06/07 x y with the tag matching y's parity | hybrid_bad the other tag
\*   pre00/pre01/pre05/pre08/preff 33 bytes with that tag | pre00_65/pre05_65 65 bytes with that tag
\*   comp_len65 02 x y | uncomp_len33 04 x | hybrid_len33 06 x
\*   len0 | len1 (single 00: SEC1 infinity) | len32 x | len34 02 x 00 | len64 x y | len66 04 x y 00
PubForms == {"comp_even", "comp_odd", "uncomp", "uncomp_neg", "uncomp_ybad", "uncomp_yplusp", "hybrid_ok", "hybrid_bad",
             "pre00", "pre01", "pre05", "pre08", "preff", "pre00_65", "pre05_65",
             "comp_len65", "uncomp_len33", "hybrid_len33", "len0", "len1", "len32", "len34", "len64", "len66"}

NeedsY == {"uncomp", "uncomp_neg", "uncomp_ybad", "uncomp_yplusp", "hybrid_ok", "hybrid_bad", "pre00_65", "pre05_65",
           "comp_len65", "len64", "len66"}

PubCases ==
    {x \in {[parser |-> "btcec.pub", shape |-> f, rc |-> NA, sc |-> NA, xc |-> xc, inst |-> i] :
                f \in PubForms, xc \in XClasses, i \in 1..Instances} :
        /\ x.shape \in NeedsY => XOnCurve(x.xc)                 \* a y only exists for curve points
        /\ x.shape = "uncomp_yplusp" => x.xc = "ysmall"}
    \cup
    \* x-only keys, and the all-zero strings
    {[parser |-> "schnorr.pub", shape |-> f, rc |-> NA, sc |-> NA, xc |-> xc, inst |-> i] :
        f \in {"x32", "x31", "x33", "empty"}, xc \in XClasses, i \in 1..Instances}
    \cup
    {[parser |-> "btcec.pub", shape |-> f, rc |-> NA, sc |-> NA, xc |-> "zero", inst |-> 1] :
        f \in {"zero33", "zero65"}}

PubVerdict(pr, f, xc) ==
    IF pr = "schnorr.pub"
    THEN IF f = "x32" /\ XOnCurve(xc) THEN "accept" ELSE "reject"
    ELSE IF f \in {"comp_even", "comp_odd"} /\ XOnCurve(xc) THEN "accept"
    ELSE IF f \in {"uncomp", "uncomp_neg", "hybrid_ok"} /\ XOnCurve(xc) THEN "accept"
    ELSE "reject"

\* which point an accepted key must be
PubPoint(pr, f) ==
    CASE pr = "schnorr.pub"  -> "even"
      [] f = "comp_even"     -> "even"
      [] f = "comp_odd"      -> "odd"
      [] f = "uncomp_neg"    -> "negy"
      [] OTHER               -> "y"

(* ---------------- MuSig2 nonces (BIP327) ------------------------------- *)
\* A public nonce is two plain points (cpoint: 02/03 || x of a curve point);
\* an aggregate nonce is two points of which each may also be the point at
\* infinity, written as exactly 33 zero bytes (cpoint_ext / cbytes_ext).
\* For these two parsers `shape` / `xc` are the forms of the first / second half:
\*   even 02 x | odd 03 x | zero33 33 zero bytes | zero_junk 00 followed by 32 non-zero bytes
\*   tag04 04 x | offc 02 x' with x' on no curve point | xgep 02 (p + x0)
\* musig.pubnonce = musig2.AggregateNonces of that single nonce (NonceAgg),
\* musig.aggnonce = musig2.Sign given that aggregate nonce (GetSessionValues),
\* musig.partialverify.pubnonce = PartialSignature.Verify given that nonce as the signer's
\*   individual public nonce (PartialSigVerifyInternal: cpoint on both halves).  "accept" there
\*   means an honest partial signature for that nonce verifies; for a half at infinity the
\*   binder presents the forged nonce (R1 + b R2, infinity) resp. (infinity, (R1 + b R2)/b)
\*   that satisfies the verification equation, so that only the parsing rule refuses it.
\*   zero_junk_first / zero_junk_mid / zero_junk_last: 00, then zero bytes except ONE non-zero
\*   byte at position 1 / 16 / 32 (the last byte)
HalfForms    == {"even", "odd", "zero33", "zero_junk", "zero_junk_first", "zero_junk_mid", "zero_junk_last",
                 "tag04", "offc", "xgep"}
HalfPlain(h) == h \in {"even", "odd"}
HalfExt(h)   == HalfPlain(h) \/ h = "zero33"
NonceParsers == {"musig.pubnonce", "musig.aggnonce", "musig.partialverify.pubnonce"}
NonceCases ==
    {x \in {[parser |-> pr, shape |-> h1, rc |-> NA, sc |-> NA, xc |-> h2, inst |-> i] :
                pr \in NonceParsers, h1 \in HalfForms, h2 \in HalfForms, i \in 1..Instances} :
        HalfPlain(x.shape) \/ HalfPlain(x.xc) \/ (x.shape = "zero33" /\ x.xc = "zero33")}
NonceVerdict(pr, h1, h2) ==
    IF pr \in {"musig.pubnonce", "musig.partialverify.pubnonce"}
    THEN IF HalfPlain(h1) /\ HalfPlain(h2) THEN "accept" ELSE "reject"
    ELSE IF HalfExt(h1) /\ HalfExt(h2) THEN "accept" ELSE "reject"

(* ---------------- the case machine ------------------------------------- *)
Cases == EcdsaCases \cup SchnorrSigCases \cup PubCases \cup NonceCases

None == [verdict |-> "none", rv |-> NA, sv |-> NA, point |-> NA, reser |-> NA]

Init == c \in Cases /\ expect = None

Judge ==
    /\ expect.verdict = "none"
    /\ expect' =
        IF c.parser \in EcdsaParsers
        THEN [verdict |-> EcdsaVerdict(c.parser, c.shape, c.rc, c.sc), rv |-> c.rc, sv |-> c.sc,
              point |-> NA, reser |-> EcdsaReser(c.shape, c.sc)]
        ELSE IF c.parser = "schnorr.sig"
        THEN [verdict |-> SchnorrSigVerdict(c.shape, c.rc, c.sc), rv |-> c.rc, sv |-> c.sc,
              point |-> NA, reser |-> "same"]
        ELSE IF c.parser \in NonceParsers
        THEN [verdict |-> NonceVerdict(c.parser, c.shape, c.xc), rv |-> NA, sv |-> NA, point |-> NA, reser |-> NA]
        ELSE [verdict |-> PubVerdict(c.parser, c.shape, c.xc), rv |-> NA, sv |-> NA,
              point |-> PubPoint(c.parser, c.shape), reser |-> "canon"]
    /\ UNCHANGED c

Next == Judge

(* ---------------- sanity of the rule tables ---------------------------- *)
Verdict(pr, sh, r, s) == EcdsaVerdict(pr, sh, r, s)

\* strict-accept is contained in lax-accept, low-S-accept in strict-accept
Nested ==
    \A sh \in DerShapes, r \in IntClasses, s \in IntClasses :
        /\ Verdict("ecdsa.lows", sh, r, s) = "accept" => Verdict("ecdsa.der", sh, r, s) = "accept"
        /\ Verdict("ecdsa.der", sh, r, s) = "accept" => Verdict("ecdsa.lax", sh, r, s) = "accept"
ASSUME Nested

\* nothing out of range is ever admitted, by any parser, in any shape
RangeSound ==
    expect.verdict \in {"accept", "may"} =>
        CASE c.parser \in EcdsaParsers -> InRange(c.rc) /\ InRange(c.sc)
          [] c.parser = "schnorr.sig"  -> BelowP(c.rc) /\ BelowN(c.sc)
          [] c.parser \in NonceParsers -> HalfExt(c.shape) /\ HalfExt(c.xc)
          [] OTHER                     -> XOnCurve(c.xc)

\* the strict parsers have no freedom
StrictDecided == expect.verdict = "may" => c.parser = "ecdsa.lax"

\* bytes come back unchanged only for canonical low-S DER
ReserSound == (c.parser \in EcdsaParsers /\ expect.reser = "same") => (c.shape = "ok" /\ LowS(c.sc))

TypeOK == /\ c \in Cases
          /\ expect.verdict \in {"none", "accept", "reject", "may"}
=============================================================================
