CONSTANTS Q = 7
          Instances = 1
INIT Init
NEXT Next
INVARIANTS SignersVerify
