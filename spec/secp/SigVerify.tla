------------------------------ MODULE SigVerify ------------------------------
(***************************************************************************)
(* C11, soundness / completeness clauses: which (message, signature, key)  *)
(* triples ECDSA (SEC1 4.1.4) and BIP340 verification must accept.         *)
(*                                                                         *)
(* Two uses of one rule table `Rule`:                                      *)
(*                                                                         *)
(* 1. Algebra (InitAlgebra / cfg SigVerify_algebra): the signing and       *)
(*    verification EQUATIONS are written out over a toy prime-order group  *)
(*    (Z_Q, +), generator 1, "x-coordinate" X(P) = min(P, Q-P) (the one     *)
(*    property used: X(P) = X(-P)), "even y" Even(P) = P <= (Q-1)/2 (the    *)
(*    one property used: exactly one of P, -P is even).  Hash values are   *)
(*    free variables.  TLC enumerates every key, nonce and hash value and  *)
(*    checks that each rule marked "identity" agrees with the equations    *)
(*    (e.g. (r, n-s) verifies in ECDSA but not in BIP340; -P has the same   *)
(*    x-only key; ECDSA under -P verifies exactly when the hash is 0).      *)
(*    Rules marked "generic" hold except on a negligible set of values     *)
(*    (stated next to each); the binder cross-checks them on every         *)
(*    concrete instance with an independent big-integer implementation.    *)
(*                                                                         *)
(* 2. Cases (Init / Judge): one behaviour per case = scheme x who signed x  *)
(*    mutation x key class x message class x nonce class x parities x      *)
(*    encoding route; Judge writes Rule's verdict into `expect`.  The      *)
(*    binder builds the concrete triple and asks the real verifier.        *)
(***************************************************************************)
EXTENDS Naturals, FiniteSets

CONSTANTS Q,           \* toy group order (prime), algebra runs only
          Instances

VARIABLES c, expect,   \* case machine
          alg          \* algebra witness: [scheme, d, k, h, h2] (scheme "-" in case runs)

NA == "-"
NoAlg == [scheme |-> NA, d |-> 0, k |-> 0, h |-> 0, h2 |-> 0]

(* ======================= toy group ==================================== *)
Zq      == 0 .. Q-1
Nz      == 1 .. Q-1
Add(a, b) == (a + b) % Q
Mul(a, b) == (a * b) % Q
Neg(a)    == (Q - a) % Q
Inv(a)    == CHOOSE b \in Nz : Mul(a, b) = 1
X(P)      == IF P <= Q - P THEN P ELSE Q - P          \* P # 0
Even(P)   == P # 0 /\ 2 * P <= Q - 1

(* ---- ECDSA over the toy group: key d, nonce k, hash z ------------------ *)
ESignR(k)       == X(k)                                \* r = x(kG) mod n
ESignS(d, k, z) == Mul(Inv(k), Add(z, Mul(ESignR(k), d)))
EVerify(P, z, r, s) ==
    /\ r \in Nz /\ s \in Nz
    /\ LET w  == Inv(s)
           Xp == Add(Mul(z, w), Mul(Mul(r, w), P))     \* u1 G + u2 P
       IN  Xp # 0 /\ X(Xp) = r

(* ---- BIP340 over the toy group: key d, nonce k, challenge e ------------ *)
SPub(d)   == X(d)                                      \* x-only key = the even one of {P, -P}
SKey(d)   == IF Even(d) THEN d ELSE Neg(d)             \* step 5: negate d if P.y is odd
SNonce(k) == IF Even(k) THEN k ELSE Neg(k)             \* step 11
SSign(d, k, e) == [r |-> X(k), s |-> Add(SNonce(k), Mul(e, SKey(d)))]
\* px is an x-only key (an even point), r an x-coordinate
SVerify(px, e, r, s) ==
    LET R == Add(s, Neg(Mul(e, px))) IN R # 0 /\ Even(R) /\ R = r

(* ======================= mutations and the rule table ================= *)
EcdsaMuts   == {"none", "s_neg", "key_neg", "s_plus1", "r_plus1", "msg_other", "key_other",
                "r_zero", "s_zero"}
SchnorrMuts == {"none", "s_neg", "key_neg", "s_plus1", "r_plus1", "msg_other", "key_other",
                "skipneg_k", "skipneg_d", "r_eq_p_minus_x"}
\*   none       the signature as produced
\*   s_neg      s replaced by n - s
\*   key_neg    verified under -P (ECDSA: the other square root; BIP340: the same x-only key)
\*   s_plus1    s + 1 mod n          r_plus1  r + 1
\*   msg_other  another message      key_other  an unrelated key
\*   r_zero / s_zero  a Signature object built with a zero component (not encodable)
\*   skipneg_k  signer omitted step 11 (nonce not negated for odd R.y)
\*   skipneg_d  signer omitted step 5  (key not negated for odd P.y)
\*   r_eq_p_minus_x  r replaced by p - r (the negated x, another field element)

\* Rule(scheme, mut, z0, ppar, rpar) = [valid, kind]
\*   z0: the message hash is 0 mod n (ECDSA); ppar / rpar: parity of P.y / R.y
Rule(scheme, mut, z0, ppar, rpar) ==
    IF scheme = "ecdsa" THEN
        CASE mut = "none"      -> [valid |-> TRUE,  kind |-> "identity"]
          [] mut = "s_neg"     -> [valid |-> TRUE,  kind |-> "identity"]   \* malleability
          [] mut = "key_neg"   -> [valid |-> z0,    kind |-> "identity"]   \* u1 = 0 makes +-P alike
          [] mut = "s_plus1"   -> [valid |-> FALSE, kind |-> "generic"]    \* except s = (n-1)/2
          [] mut = "r_plus1"   -> [valid |-> FALSE, kind |-> "generic"]
          [] mut = "msg_other" -> [valid |-> FALSE, kind |-> "generic"]    \* except z' = -z - 2rd
          [] mut = "key_other" -> [valid |-> FALSE, kind |-> "generic"]
          [] mut = "r_zero"    -> [valid |-> FALSE, kind |-> "identity"]
          [] mut = "s_zero"    -> [valid |-> FALSE, kind |-> "identity"]
    ELSE
        CASE mut = "none"      -> [valid |-> TRUE,  kind |-> "identity"]
          [] mut = "s_neg"     -> [valid |-> FALSE, kind |-> "generic"]    \* except s = 0
          [] mut = "key_neg"   -> [valid |-> TRUE,  kind |-> "identity"]
          [] mut = "s_plus1"   -> [valid |-> FALSE, kind |-> "identity"]
          [] mut = "r_plus1"   -> [valid |-> FALSE, kind |-> "generic"]
          [] mut = "msg_other" -> [valid |-> FALSE, kind |-> "identity"]   \* for distinct challenge values
          [] mut = "key_other" -> [valid |-> FALSE, kind |-> "generic"]
          [] mut = "skipneg_k" -> [valid |-> rpar = "even", kind |-> "identity"]
          [] mut = "skipneg_d" -> [valid |-> ppar = "even", kind |-> "generic"]   \* odd P: except e = 0
          [] mut = "r_eq_p_minus_x" -> [valid |-> FALSE, kind |-> "generic"]

Par(b) == IF b THEN "even" ELSE "odd"

(* ---- the equations evaluated on a toy witness -------------------------- *)
\* alg = [scheme, d, k, h, h2]: h the hash of the signed message (ECDSA z,
\* BIP340 e), h2 # h the hash value after a change of r, message or key.
ToyEcdsa(mut, d, k, z, z2) ==
    LET r == ESignR(k)  s == ESignS(d, k, z) IN
    CASE mut = "none"      -> EVerify(d, z, r, s)
      [] mut = "s_neg"     -> EVerify(d, z, r, Neg(s))
      [] mut = "key_neg"   -> EVerify(Neg(d), z, r, s)
      [] mut = "r_zero"    -> EVerify(d, z, 0, s)
      [] mut = "s_zero"    -> EVerify(d, z, r, 0)
      [] mut = "s_plus1"   -> EVerify(d, z, r, Add(s, 1))
      [] mut = "msg_other" -> EVerify(d, z2, r, s)
      [] OTHER             -> FALSE

ToySchnorr(mut, d, k, e, e2) ==
    LET sg == SSign(d, k, e) IN
    CASE mut = "none"      -> SVerify(SPub(d), e, sg.r, sg.s)
      [] mut = "s_neg"     -> SVerify(SPub(d), e, sg.r, Neg(sg.s))
      [] mut = "key_neg"   -> SVerify(SPub(Neg(d)), e, sg.r, sg.s)
      [] mut = "s_plus1"   -> SVerify(SPub(d), e, sg.r, Add(sg.s, 1))
      [] mut = "msg_other" -> SVerify(SPub(d), e2, sg.r, sg.s)
      [] mut = "skipneg_k" -> SVerify(SPub(d), e, sg.r, Add(k, Mul(e, SKey(d))))
      [] mut = "skipneg_d" -> SVerify(SPub(d), e, sg.r, Add(SNonce(k), Mul(e, d)))
      [] OTHER             -> FALSE

\* the negligible sets on which a generic rule is allowed to fail
Excused(scheme, mut, d, k, h, h2) ==
    IF scheme = "ecdsa"
    THEN CASE mut = "s_plus1"   -> 2 * ESignS(d, k, h) = Q - 1
           [] mut = "msg_other" -> h2 = Neg(Add(h, Mul(2, Mul(ESignR(k), d))))
           [] OTHER             -> FALSE
    ELSE CASE mut = "s_neg"     -> SSign(d, k, h).s = 0
           [] mut = "skipneg_d" -> h = 0
           [] OTHER             -> FALSE

\* mutations whose toy evaluation is meaningful (the others change r or the
\* key, which re-draws a hash value or has no toy analogue)
Evaluated(scheme) ==
    IF scheme = "ecdsa"
    THEN {"none", "s_neg", "key_neg", "r_zero", "s_zero", "s_plus1", "msg_other"}
    ELSE {"none", "s_neg", "key_neg", "s_plus1", "msg_other", "skipneg_k", "skipneg_d"}

AlgebraOK ==
    alg.scheme # NA =>
      \A mut \in Evaluated(alg.scheme) :
        LET toy  == IF alg.scheme = "ecdsa" THEN ToyEcdsa(mut, alg.d, alg.k, alg.h, alg.h2)
                                            ELSE ToySchnorr(mut, alg.d, alg.k, alg.h, alg.h2)
            rule == Rule(alg.scheme, mut, alg.h = 0, Par(Even(alg.d)), Par(Even(alg.k)))
        IN  \/ toy = rule.valid
            \/ rule.kind = "generic" /\ Excused(alg.scheme, mut, alg.d, alg.k, alg.h, alg.h2)

\* a generic rule is excused only where it really fails: the excuses are exact
ExcusesExact ==
    alg.scheme # NA =>
      \A mut \in Evaluated(alg.scheme) :
        LET toy  == IF alg.scheme = "ecdsa" THEN ToyEcdsa(mut, alg.d, alg.k, alg.h, alg.h2)
                                            ELSE ToySchnorr(mut, alg.d, alg.k, alg.h, alg.h2)
            rule == Rule(alg.scheme, mut, alg.h = 0, Par(Even(alg.d)), Par(Even(alg.k)))
        IN  (rule.kind = "generic" /\ Excused(alg.scheme, mut, alg.d, alg.k, alg.h, alg.h2)
                /\ ~(mut = "skipneg_d" /\ Even(alg.d))) => toy # rule.valid

\* ECDSA signing must not have produced s = 0 (SEC1 4.1.3 step 6 retries)
AlgWitnesses ==
    {w \in [scheme : {"ecdsa", "schnorr"}, d : Nz, k : Nz, h : Zq, h2 : Zq] :
        /\ w.h2 # w.h
        /\ w.scheme = "ecdsa" => ESignS(w.d, w.k, w.h) # 0}

(* ---- key agreement: both parties derive x(ab G) ------------------------ *)
DHSymmetric == \A a \in Nz, b \in Nz : X(Mul(a, Mul(b, 1))) = X(Mul(b, Mul(a, 1))) /\ Mul(a, b) # 0
ASSUME DHSymmetric

(* ======================= the case machine ============================= *)
KeyClasses   == {"one", "two", "nm1", "nm2", "rand"}       \* private key 1, 2, n-1, n-2, random
MsgClasses   == {"zero", "ff", "rand"}                     \* 32 zero bytes, 32 ff bytes, random
NonceClasses == {"one", "nm1", "rand"}
Parities     == {"even", "odd"}

\* encoding routes into the verifier
\*   ecdsa:   der_comp   strict DER + compressed key      der_uncomp  strict DER + uncompressed key
\*            lax_hybrid padded BER via the lax parser + hybrid key
\*            direct     Signature object from scalars + key object
\*   schnorr: bytes      64-byte signature + 32-byte x-only key through the parsers
\*            direct     Signature object from (r, s) + the full key object as the signer holds it
EcdsaEncs   == {"der_comp", "der_uncomp", "lax_hybrid", "direct"}
SchnorrEncs == {"bytes", "direct"}

\* who produced the signature
\*   ref          the reference signer with an explicit nonce (all mutations)
\*   lib.sign     ecdsa.Sign              lib.compact  ecdsa.SignCompact / RecoverCompact
\*   lib.rfc6979  schnorr.Sign            lib.aux      schnorr.Sign + CustomNonce
\*   lib.fast     schnorr.Sign + FastSign lib.auxfast  both options
EcdsaLib   == {"lib.sign", "lib.compact"}
SchnorrLib == {"lib.rfc6979", "lib.aux", "lib.fast", "lib.auxfast"}

Case(sch, org, mut, kc, mc, nc, pp, rp, en, i) ==
    [scheme |-> sch, origin |-> org, mut |-> mut, keyc |-> kc, msgc |-> mc, noncec |-> nc,
     ppar |-> pp, rpar |-> rp, enc |-> en, inst |-> i]

Cases ==
    \* ECDSA, reference signer: every mutation, key, message and route; boundary nonces for none / s_neg
    {x \in {Case("ecdsa", "ref", m, kc, mc, nc, NA, NA, en, i) :
                m \in EcdsaMuts, kc \in KeyClasses, mc \in MsgClasses, nc \in NonceClasses,
                en \in EcdsaEncs, i \in 1..Instances} :
        /\ x.noncec # "rand" => x.mut \in {"none", "s_neg"}
        /\ x.mut \in {"r_zero", "s_zero"} => x.enc = "direct"}
    \cup
    {Case("ecdsa", org, "none", kc, mc, NA, NA, NA, en, i) :
        org \in EcdsaLib, kc \in KeyClasses, mc \in MsgClasses, en \in EcdsaEncs, i \in 1..Instances}
    \cup
    \* BIP340, reference signer: the parities of P and R are case dimensions
    {x \in {Case("schnorr", "ref", m, kc, mc, "rand", pp, rp, en, i) :
                m \in SchnorrMuts, kc \in KeyClasses, mc \in MsgClasses, pp \in Parities, rp \in Parities,
                en \in SchnorrEncs, i \in 1..Instances} :
        \* a signature of an omitted-negation signer and the other square root of a key
        \* only differ from the plain cases through the object route / parity
        x.mut = "key_neg" => x.enc = "direct"}
    \cup
    {Case("schnorr", org, "none", kc, mc, NA, NA, NA, en, i) :
        org \in SchnorrLib, kc \in KeyClasses, mc \in MsgClasses, en \in SchnorrEncs, i \in 1..Instances}
    \cup
    \* key agreement between two key classes
    {Case("ecdh", "lib", "none", ka, kb, NA, NA, NA, NA, i) :
        ka \in KeyClasses, kb \in KeyClasses, i \in 1..Instances}

NoExpect == [valid |-> "none", kind |-> NA]

Init == c \in Cases /\ expect = NoExpect /\ alg = NoAlg

Judge ==
    /\ expect.valid = "none"
    /\ expect' = IF c.scheme = "ecdh"
                 THEN [valid |-> "symmetric", kind |-> "identity"]
                 ELSE LET r == Rule(c.scheme, c.mut, c.msgc = "zero", c.ppar, c.rpar)
                      IN  [valid |-> IF r.valid THEN "true" ELSE "false", kind |-> r.kind]
    /\ UNCHANGED <<c, alg>>

Next == Judge

\* whatever a library signer produces verifies
SignersVerify == (expect.valid # "none" /\ c.origin \notin {"ref", "lib"}) => expect.valid = "true"

(* ---- algebra run ------------------------------------------------------- *)
InitAlgebra == alg \in AlgWitnesses /\ c = Case(NA, NA, NA, NA, NA, NA, NA, NA, NA, 0) /\ expect = NoExpect
NextAlgebra == UNCHANGED <<c, expect, alg>>
=============================================================================
