CONSTANTS Q = 11
          Instances = 1
INIT InitAlgebra
NEXT NextAlgebra
INVARIANTS AlgebraOK ExcusesExact
