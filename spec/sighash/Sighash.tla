------------------------------- MODULE Sighash -------------------------------
(***************************************************************************)
(* C07: what a Bitcoin signature signs.                                    *)
(*                                                                         *)
(* For each of the four signature-hash algorithms                          *)
(*      "legacy"     the original algorithm (base scripts, P2SH)           *)
(*      "v0"         BIP143 (witness version 0)                            *)
(*      "keypath"    BIP341 (taproot key path)                             *)
(*      "tapscript"  BIP341 + BIP342 extension (taproot script path)       *)
(* the module defines the digest as a TREE OF TOKENS over the fields of an *)
(* abstract transaction: Digest(tx, ctx).  A token says how some bytes are *)
(* obtained (a constant, a field of the transaction in a given encoding,   *)
(* the hash of a token sequence); the tree is the byte layout of the       *)
(* message that gets hashed.  Field VALUES are abstract: a value is the    *)
(* tuple <<owner, index, field, generation>>; two values are equal iff the *)
(* tuples are.  The binder maps every value to random concrete bytes,      *)
(* renders the tree and compares with what btcd computes.                  *)
(*                                                                         *)
(* From the same definition:                                               *)
(*   Commits(tx, ctx)      the set of fields occurring in the tree         *)
(*   Changes(tx, ctx, m)   whether mutation m (a field gets a new value,   *)
(*                         an input/output is added, removed, permuted,    *)
(*                         the hash type byte or the annex is replaced)    *)
(*                         yields a different tree                         *)
(* and the lemmas at the end relate them to the hash type classes.         *)
(*                                                                         *)
(* Scripts are sequences of items, one opcode each; the only semantics the *)
(* module needs is which OP_CODESEPARATORs are executed before the         *)
(* signature check (an item inside an untaken branch is marked ~live).     *)
(***************************************************************************)
EXTENDS Integers, Sequences, FiniteSets, TLC

CONSTANTS Tier

VARIABLES case, expect
vars == <<case, expect>>

Thorough == Tier = "thorough"

-----------------------------------------------------------------------------
(* values and transactions *)

None          == <<"none", 0, "", 0>>
Val(o, i, f)  == <<o, i, f, 0>>
Bump(v)       == <<v[1], v[2], v[3], v[4] + 1>>
FieldOf(v)    == <<v[1], v[2], v[3]>>

NewIn(i)  == [ ph  |-> Val("in", i, "prevhash"),  pi  |-> Val("in", i, "previndex"),
               seq |-> Val("in", i, "sequence"),  amt |-> Val("in", i, "amount"),
               pks |-> Val("in", i, "pkscript"),  ss  |-> Val("in", i, "sigscript"),
               wit |-> Val("in", i, "witness") ]
NewOut(j) == [ val |-> Val("out", j, "value"), pk |-> Val("out", j, "pkscript") ]

MkTx(nin, nout) == [ version  |-> Val("tx", 0, "version"),
                     locktime |-> Val("tx", 0, "locktime"),
                     ins      |-> [i \in 1..nin |-> NewIn(i)],
                     outs     |-> [j \in 1..nout |-> NewOut(j)] ]

-----------------------------------------------------------------------------
(* hash type byte -> behaviour class *)

Acp(ht)  == ht >= 128                        \* bit 0x80
Base(ht) == LET m == ht % 32                 \* low five bits
            IN IF m = 2 THEN "none" ELSE IF m = 3 THEN "single" ELSE "all"
\* BIP341: only these seven bytes are hash types at all
TapValid(ht) == ht \in {0, 1, 2, 3, 129, 130, 131}
\* the standardness rule for ECDSA signatures (STRICTENC): defined types only
EcdsaDefined(ht) == ht \in {1, 2, 3, 129, 130, 131}

-----------------------------------------------------------------------------
(* tokens *)

\* (tuples: <<kind, payload...>>)
U8(n)       == <<"u8", n>>            \* one constant byte
C32(n)      == <<"c32", n>>           \* constant, 4 bytes little endian
Ones32      == <<"ones32">>           \* 0xffffffff
CInt(n)     == <<"cint", n>>          \* constant as a compact size
F32(v)      == <<"f32", v>>           \* field, 4 bytes little endian
F64(v)      == <<"f64", v>>           \* field, 8 bytes little endian
Raw32(v)    == <<"raw32", v>>         \* field, 32 bytes as they are
FVar(v)     == <<"fvar", v>>          \* byte-string field: compact size, bytes
Code(its)   == <<"code", its>>        \* script items: compact size of the total, bytes
Neg64       == <<"neg64">>            \* -1 as 8 bytes
Zero32      == <<"zero32">>           \* 32 zero bytes
H256(s)     == <<"hash256", s>>       \* SHA256(SHA256(bytes of s))
Sha(s)      == <<"sha256", s>>        \* SHA256(bytes of s)
Tagged(t, s) == <<"tagged", t, s>>    \* SHA256(SHA256(t) || SHA256(t) || bytes of s)
DigestOne   == <<"one">>              \* the number 1 as a 256-bit little endian integer
DigestErr   == <<"error">>            \* no digest: the signature is invalid

RECURSIVE FlatTo(_, _)
FlatTo(f, n) == IF n = 0 THEN << >> ELSE FlatTo(f, n - 1) \o f[n]
Flat(f)      == FlatTo(f, Len(f))

Max(S) == CHOOSE x \in S : \A y \in S : y <= x

-----------------------------------------------------------------------------
(* scripts *)

\* an item is <<opcode name, data value or None, executed>>
It(op)      == <<op, None, TRUE>>
ItD(op, d)  == <<op, d, TRUE>>
Dead(it)    == <<it[1], it[2], FALSE>>
OpOf(it)    == it[1]
DataOf(it)  == it[2]
LiveOf(it)  == it[3]

\* position of the last OP_CODESEPARATOR executed before item pos (0: none)
LastSep(s, pos) == LET S == {k \in 1..(pos - 1) : OpOf(s[k]) = "sep" /\ LiveOf(s[k])}
                   IN IF S = {} THEN 0 ELSE Max(S)

\* legacy: the part of the script the signature check works on starts after
\* the last executed separator; every push of a signature that is being
\* checked is deleted from it (FindAndDelete) ...
LegacySub(s, pos, rm) ==
    LET from == LastSep(s, pos) + 1
        Keep(it) == ~(OpOf(it) = "pushsig" /\ DataOf(it) \in rm)
    IN SelectSeq(SubSeq(s, from, Len(s)), Keep)

\* ... and the script code that is hashed has, in addition, every separator
\* deleted (executed or not, before or after the check)
LegacyCode(s, pos, rm) ==
    LET NotSep(it) == OpOf(it) # "sep"
    IN SelectSeq(LegacySub(s, pos, rm), NotSep)

\* BIP143 script code: from the last executed separator, nothing deleted
V0Code(s, pos) == SubSeq(s, LastSep(s, pos) + 1, Len(s))

\* BIP342: opcode position of the last executed separator, or 0xffffffff
TapCodeSep(s, pos) == LET k == LastSep(s, pos) IN IF k = 0 THEN Ones32 ELSE C32(k - 1)

-----------------------------------------------------------------------------
(* the four digests.  idx is 1-based here; the wire index is idx - 1. *)

OutTok(tx, j)  == <<F64(tx.outs[j].val), FVar(tx.outs[j].pk)>>
AllOuts(tx)    == Flat([j \in 1..Len(tx.outs) |-> OutTok(tx, j)])
PrevTok(tx, i) == <<Raw32(tx.ins[i].ph), F32(tx.ins[i].pi)>>

LegacyDigest(tx, idx, ht, code) ==
    LET base == Base(ht)
        acp  == Acp(ht)
        nin  == Len(tx.ins)
        nout == Len(tx.outs)
        InTok(i) == PrevTok(tx, i)
                    \o (IF i = idx THEN <<Code(code)>> ELSE <<CInt(0)>>)
                    \o (IF i # idx /\ base # "all" THEN <<C32(0)>> ELSE <<F32(tx.ins[i].seq)>>)
        Ins  == IF acp THEN <<CInt(1)>> \o InTok(idx)
                       ELSE <<CInt(nin)>> \o Flat([i \in 1..nin |-> InTok(i)])
        Blank == <<Neg64, CInt(0)>>
        Outs == CASE base = "all"    -> <<CInt(nout)>> \o AllOuts(tx)
                  [] base = "none"   -> <<CInt(0)>>
                  [] base = "single" -> <<CInt(idx)>> \o Flat([j \in 1..idx |-> IF j < idx THEN Blank ELSE OutTok(tx, j)])
    IN IF base = "single" /\ idx > nout
       THEN DigestOne
       ELSE H256(<<F32(tx.version)>> \o Ins \o Outs \o <<F32(tx.locktime), C32(ht)>>)

V0Digest(tx, idx, ht, code) ==
    LET base == Base(ht)
        acp  == Acp(ht)
        nin  == Len(tx.ins)
        nout == Len(tx.outs)
        hashPrevouts == IF acp THEN Zero32 ELSE H256(Flat([i \in 1..nin |-> PrevTok(tx, i)]))
        hashSequence == IF ~acp /\ base = "all" THEN H256([i \in 1..nin |-> F32(tx.ins[i].seq)]) ELSE Zero32
        hashOutputs  == CASE base = "all" -> H256(AllOuts(tx))
                          [] base = "single" /\ idx <= nout -> H256(OutTok(tx, idx))
                          [] OTHER -> Zero32
    IN H256(<<F32(tx.version), hashPrevouts, hashSequence>> \o PrevTok(tx, idx)
            \o <<Code(code), F64(tx.ins[idx].amt), F32(tx.ins[idx].seq), hashOutputs, F32(tx.locktime), C32(ht)>>)

\* ext: << >> for the key path, <<leaf script, code separator token>> for tapscript
TapDigest(tx, idx, ht, annex, ext) ==
    LET acp  == Acp(ht)
        base == Base(ht)
        nin  == Len(tx.ins)
        nout == Len(tx.outs)
        extFlag  == IF ext = << >> THEN 0 ELSE 1
        annexBit == IF annex = None THEN 0 ELSE 1
    IN IF ~TapValid(ht) \/ (base = "single" /\ idx > nout)
       THEN DigestErr
       ELSE Tagged("TapSighash",
               <<U8(0), U8(ht), F32(tx.version), F32(tx.locktime)>>
            \o (IF acp THEN << >>
                ELSE << Sha(Flat([i \in 1..nin |-> PrevTok(tx, i)])),
                        Sha([i \in 1..nin |-> F64(tx.ins[i].amt)]),
                        Sha([i \in 1..nin |-> FVar(tx.ins[i].pks)]),
                        Sha([i \in 1..nin |-> F32(tx.ins[i].seq)]) >>)
            \o (IF base = "all" THEN <<Sha(AllOuts(tx))>> ELSE << >>)
            \o <<U8(2 * extFlag + annexBit)>>
            \o (IF acp THEN PrevTok(tx, idx) \o <<F64(tx.ins[idx].amt), FVar(tx.ins[idx].pks), F32(tx.ins[idx].seq)>>
                       ELSE <<C32(idx - 1)>>)
            \o (IF annex = None THEN << >> ELSE <<Sha(<<FVar(annex)>>)>>)
            \o (IF base = "single" THEN <<Sha(OutTok(tx, idx))>> ELSE << >>)
            \o (IF ext = << >> THEN << >>
                ELSE <<Tagged("TapLeaf", <<U8(192), Code(ext[1])>>), U8(0), ext[2]>>))

\* A signing context:
\*   alg, ht (the hash type byte), idx, script and pos (the item that checks
\*   the signature; << >> and 0 for the key path), sigs (the signature values
\*   the check compares against: deleted from a legacy script code), annex
Digest(tx, c) ==
    CASE c.alg = "legacy"    -> LegacyDigest(tx, c.idx, c.ht, LegacyCode(c.script, c.pos, c.sigs))
      [] c.alg = "v0"        -> V0Digest(tx, c.idx, c.ht, V0Code(c.script, c.pos))
      [] c.alg = "keypath"   -> TapDigest(tx, c.idx, c.ht, c.annex, << >>)
      [] c.alg = "tapscript" -> TapDigest(tx, c.idx, c.ht, c.annex, <<c.script, TapCodeSep(c.script, c.pos)>>)

-----------------------------------------------------------------------------
(* what a caller hands to the digest functions of a library: the script the  *)
(* check works on (a legacy library deletes the separators itself) and, for  *)
(* tapscript, the whole leaf and the opcode position of the last executed    *)
(* separator (-1: none)                                                      *)

ApiArgs(c) ==
    CASE c.alg = "legacy"    -> [script |-> LegacySub(c.script, c.pos, c.sigs), codesep |-> -1]
      [] c.alg = "v0"        -> [script |-> V0Code(c.script, c.pos), codesep |-> -1]
      [] c.alg = "keypath"   -> [script |-> << >>, codesep |-> -1]
      [] c.alg = "tapscript" -> [script |-> c.script, codesep |-> LastSep(c.script, c.pos) - 1]

-----------------------------------------------------------------------------
(* commitment set *)

RECURSIVE ValsOfSeq(_)
ValsOfTok(t) ==
    CASE t[1] \in {"f32", "f64", "raw32", "fvar"} -> {t[2]}
      [] t[1] = "code" -> {DataOf(t[2][j]) : j \in {x \in 1..Len(t[2]) : DataOf(t[2][x]) # None}}
      [] t[1] \in {"hash256", "sha256"} -> ValsOfSeq(t[2])
      [] t[1] = "tagged" -> ValsOfSeq(t[3])
      [] OTHER -> {}
ValsOfSeq(s) == IF s = << >> THEN {} ELSE ValsOfTok(Head(s)) \cup ValsOfSeq(Tail(s))

CommitsOf(d)     == {FieldOf(v) : v \in ValsOfTok(d)}
Commits(tx, c)   == CommitsOf(Digest(tx, c))

-----------------------------------------------------------------------------
(* mutations *)

BV(v, a) == IF v = a THEN Bump(v) ELSE v

BumpTx(tx, a) ==
    [ version  |-> BV(tx.version, a),
      locktime |-> BV(tx.locktime, a),
      ins  |-> [i \in 1..Len(tx.ins) |->
                 [ ph  |-> BV(tx.ins[i].ph, a),  pi  |-> BV(tx.ins[i].pi, a),  seq |-> BV(tx.ins[i].seq, a),
                   amt |-> BV(tx.ins[i].amt, a), pks |-> BV(tx.ins[i].pks, a), ss  |-> BV(tx.ins[i].ss, a),
                   wit |-> BV(tx.ins[i].wit, a) ]],
      outs |-> [j \in 1..Len(tx.outs) |-> [val |-> BV(tx.outs[j].val, a), pk |-> BV(tx.outs[j].pk, a)]] ]

BumpScript(s, a) == [k \in 1..Len(s) |-> <<s[k][1], BV(s[k][2], a), s[k][3]>>]

Without(s, k) == SubSeq(s, 1, k - 1) \o SubSeq(s, k + 1, Len(s))
Swap(s, a, b) == [s EXCEPT ![a] = s[b], ![b] = s[a]]

\* the two inputs other than idx of a three-input transaction
Others(idx) == IF idx = 1 THEN <<2, 3>> ELSE IF idx = 2 THEN <<1, 3>> ELSE <<1, 2>>

\* a mutation is <<m, a, n>>: kind, value (or None), number (or 0)
Mu(m, a, n) == <<m, a, n>>
MuM(mu) == mu[1]
MuA(mu) == mu[2]
MuN(mu) == mu[3]

MutTx(tx, c, mu) ==
    CASE MuM(mu) = "field"     -> BumpTx(tx, MuA(mu))
      [] MuM(mu) = "addin"     -> [tx EXCEPT !.ins = Append(tx.ins, NewIn(9))]
      [] MuM(mu) = "prependin" -> [tx EXCEPT !.ins = <<NewIn(0)>> \o tx.ins]
      [] MuM(mu) = "delin"     -> [tx EXCEPT !.ins = Without(tx.ins, MuN(mu))]
      [] MuM(mu) = "swapins"   -> [tx EXCEPT !.ins = Swap(tx.ins, Others(c.idx)[1], Others(c.idx)[2])]
      [] MuM(mu) = "addout"    -> [tx EXCEPT !.outs = Append(tx.outs, NewOut(9))]
      [] MuM(mu) = "delout"    -> [tx EXCEPT !.outs = Without(tx.outs, Len(tx.outs))]
      [] MuM(mu) = "swapouts"  -> [tx EXCEPT !.outs = Swap(tx.outs, 1, 2)]
      [] OTHER -> tx

MutCtx(c, mu) ==
    CASE MuM(mu) = "item"      -> [c EXCEPT !.script = BumpScript(c.script, MuA(mu))]
      [] MuM(mu) = "hashtype"  -> [c EXCEPT !.ht = MuN(mu)]
      [] MuM(mu) = "field" /\ MuA(mu) = c.annex -> [c EXCEPT !.annex = Bump(c.annex)]
      [] MuM(mu) = "dropannex" -> [c EXCEPT !.annex = None]
      [] MuM(mu) = "addannex"  -> [c EXCEPT !.annex = Val("annex", 0, "")]
      [] MuM(mu) = "prependin" -> [c EXCEPT !.idx = c.idx + 1]
      [] MuM(mu) = "delin" /\ MuN(mu) < c.idx -> [c EXCEPT !.idx = c.idx - 1]
      [] OTHER -> c

Changes(tx, c, mu) == Digest(MutTx(tx, c, mu), MutCtx(c, mu)) # Digest(tx, c)

InVals(in)  == <<in.ph, in.pi, in.seq, in.amt, in.pks, in.ss, in.wit>>
OutVals(o)  == <<o.val, o.pk>>
TxVals(tx)  == <<tx.version, tx.locktime>>
               \o Flat([i \in 1..Len(tx.ins) |-> InVals(tx.ins[i])])
               \o Flat([j \in 1..Len(tx.outs) |-> OutVals(tx.outs[j])])

\* the data of script items, without repetition, signatures excluded (a
\* signature is not an independent value)
RECURSIVE ItemValsFrom(_, _, _)
ItemValsFrom(s, k, seen) ==
    IF k > Len(s) THEN << >>
    ELSE IF DataOf(s[k]) = None \/ OpOf(s[k]) = "pushsig" \/ DataOf(s[k]) \in seen THEN ItemValsFrom(s, k + 1, seen)
    ELSE <<DataOf(s[k])>> \o ItemValsFrom(s, k + 1, seen \cup {DataOf(s[k])})

HashTypeTargets == <<0, 1, 2, 3, 35, 129, 131>>

IsTap(c) == c.alg \in {"keypath", "tapscript"}

Mutations(tx, c) ==
    LET nin  == Len(tx.ins)
        nout == Len(tx.outs)
        tv   == TxVals(tx)
        iv   == ItemValsFrom(c.script, 1, {})
    IN [k \in 1..Len(tv) |-> Mu("field", tv[k], 0)]
       \o [k \in 1..Len(iv) |-> Mu("item", iv[k], 0)]
       \o <<Mu("addin", None, 0), Mu("prependin", None, 0), Mu("addout", None, 0)>>
       \o (IF c.idx < nin THEN <<Mu("delin", None, nin)>> ELSE << >>)
       \o (IF c.idx > 1 THEN <<Mu("delin", None, 1)>> ELSE << >>)
       \o (IF nin = 3 THEN <<Mu("swapins", None, 0)>> ELSE << >>)
       \o (IF nout >= 1 THEN <<Mu("delout", None, 0)>> ELSE << >>)
       \o (IF nout >= 2 THEN <<Mu("swapouts", None, 0)>> ELSE << >>)
       \o SelectSeq([k \in 1..Len(HashTypeTargets) |-> Mu("hashtype", None, HashTypeTargets[k])], LAMBDA mu : MuN(mu) # c.ht)
       \o (IF IsTap(c) THEN (IF c.annex = None THEN <<Mu("addannex", None, 0)>>
                             ELSE <<Mu("field", c.annex, 0), Mu("dropannex", None, 0)>>)
           ELSE << >>)

-----------------------------------------------------------------------------
(* script shapes *)

K1  == Val("key", 1, "")
K2  == Val("key", 2, "")
K3  == Val("key", 3, "")
SIG == Val("sig", 1, "")
P(n) == Val("push", n, "")

Key(k)   == ItD("key", k)          \* push of the public key (33 bytes; 32 in tapscript)
KeyU(k)  == ItD("keyu", k)         \* push of the uncompressed public key (65 bytes)
KeyH(k)  == ItD("keyhash", k)      \* push of HASH160 of the public key
KeyHU(k) == ItD("keyhashu", k)     \* push of HASH160 of the uncompressed public key
Filler(n) == <<ItD("push", P(n)), It("drop")>>
Sep      == It("sep")
CheckSig == It("checksig")
DeadSep  == <<It("zero"), It("if"), Dead(It("sep")), It("endif")>>
PushSig  == ItD("pushsig", SIG)

\* [name, script, pos (the checking item), key (the signer), sigs (deleted from a legacy code)]
Sh(name, s, pos, key) == [name |-> name, script |-> s, pos |-> pos, key |-> key]

ShPlain       == Sh("plain",        <<Key(K1), CheckSig>>, 2, K1)
ShSepBefore   == Sh("sepBefore",    Filler(1) \o <<Sep>> \o Filler(2) \o <<Key(K1), CheckSig>>, 7, K1)
ShSepAfter    == Sh("sepAfter",     <<Key(K1), CheckSig, Sep>> \o Filler(1), 2, K1)
ShSepDead     == Sh("sepDead",      DeadSep \o Filler(1) \o <<Key(K1), CheckSig>>, 8, K1)
ShTwoSeps     == Sh("twoSeps",      Filler(1) \o <<Sep>> \o Filler(2) \o <<Sep>> \o Filler(3) \o <<Key(K1), CheckSig>>, 10, K1)
ShLiveDead    == Sh("liveThenDead", Filler(1) \o <<Sep>> \o Filler(2) \o DeadSep \o <<Key(K1), CheckSig>>, 11, K1)
ShEmbedSig    == Sh("embedSig",     <<PushSig, It("drop"), Key(K1), CheckSig>>, 4, K1)
ShSepEmbedSig == Sh("sepEmbedSig",  Filler(1) \o <<Sep, PushSig, It("drop"), Key(K1), CheckSig>>, 7, K1)
ShMulti       == Sh("multisig",     <<It("one"), Key(K1), Key(K2), It("two"), It("checkmultisig")>>, 5, K2)
ShSepMulti    == Sh("sepMultisig",  Filler(1) \o <<Sep, It("one"), Key(K1), Key(K2), It("two"), It("checkmultisig")>>, 8, K2)
ShP2WPKH      == Sh("p2wpkh",       <<It("dup"), It("hash160"), KeyH(K1), It("equalverify"), CheckSig>>, 5, K1)
ShCsa         == Sh("checksigadd",  <<It("zero"), Key(K1), It("checksigadd")>>, 3, K1)
ShKeyPath     == Sh("keypath",      << >>, 0, K1)

CodeSepShapes == {ShSepBefore, ShSepAfter, ShSepDead, ShTwoSeps, ShLiveDead}

ScriptShapes(alg) ==
    CASE alg = "legacy"    -> {ShPlain, ShEmbedSig, ShSepEmbedSig, ShMulti, ShSepMulti} \cup CodeSepShapes
      [] alg = "v0"        -> {ShPlain, ShP2WPKH, ShMulti} \cup CodeSepShapes
      [] alg = "keypath"   -> {ShKeyPath}
      [] alg = "tapscript" -> {ShPlain, ShCsa} \cup CodeSepShapes

BasicShapes(alg) ==
    CASE alg = "legacy"    -> {ShPlain}
      [] alg = "v0"        -> {ShPlain, ShP2WPKH}
      [] alg = "keypath"   -> {ShKeyPath}
      [] alg = "tapscript" -> {ShPlain}

Algs == {"legacy", "v0", "keypath", "tapscript"}

Annexes(alg) == IF alg \in {"keypath", "tapscript"} THEN {None, Val("annex", 0, "")} ELSE {None}

Ctx(alg, sh, ht, idx, annex) ==
    [ alg |-> alg, shape |-> sh.name, script |-> sh.script, pos |-> sh.pos, key |-> sh.key,
      sigs |-> {SIG}, ht |-> ht, idx |-> idx, annex |-> annex ]

-----------------------------------------------------------------------------
(* hash type representatives: every behaviour class of every algorithm has   *)
(* one, and each of the 256 bytes falls into the class of a representative   *)

EcdsaReps == IF Thorough THEN {0, 1, 2, 3, 4, 32, 34, 35, 65, 128, 129, 130, 131, 132, 162, 163, 255}
                         ELSE {0, 1, 2, 3, 4, 35, 129, 130, 131, 162, 255}
TapReps   == IF Thorough THEN {0, 1, 2, 3, 129, 130, 131, 4, 32, 33, 65, 128, 132, 163, 255}
                         ELSE {0, 1, 2, 3, 129, 130, 131, 4, 128, 163}
Reps(alg) == IF alg \in {"legacy", "v0"} THEN EcdsaReps ELSE TapReps

Class(alg, ht) == IF alg \in {"legacy", "v0"} THEN <<Base(ht), Acp(ht)>>
                  ELSE IF TapValid(ht) THEN <<Base(ht), Acp(ht)>> ELSE <<"invalid", FALSE>>

ASSUME RepsCover == \A alg \in Algs : \A ht \in 0..255 : \E r \in Reps(alg) : Class(alg, ht) = Class(alg, r)

\* the defined hash types are exactly one per class in the ECDSA algorithms
ASSUME DefinedOnePerClass ==
    \A b \in {"all", "none", "single"}, a \in BOOLEAN :
        Cardinality({ht \in 0..255 : EcdsaDefined(ht) /\ Class("legacy", ht) = <<b, a>>}) = 1

-----------------------------------------------------------------------------
(* signer cases: the standard output types and what their helper signs *)

\* [otype, alg, script (what the signature check runs in), pos, keys (the signers, in order), compressed]
St(otype, alg, s, pos, keys, comp) == [otype |-> otype, alg |-> alg, script |-> s, pos |-> pos, keys |-> keys, comp |-> comp]

PkhScript(k, comp) == <<It("dup"), It("hash160"), IF comp THEN KeyH(k) ELSE KeyHU(k), It("equalverify"), CheckSig>>
PkScript(k, comp)  == <<IF comp THEN Key(k) ELSE KeyU(k), CheckSig>>
Multi12 == <<It("one"), Key(K1), Key(K2), It("two"), It("checkmultisig")>>
Multi22 == <<It("two"), Key(K1), Key(K2), It("two"), It("checkmultisig")>>
Multi23 == <<It("two"), Key(K1), Key(K2), Key(K3), It("three"), It("checkmultisig")>>

SignerTypes ==
    {St("p2pk", "legacy", PkScript(K1, c), 2, <<K1>>, c) : c \in BOOLEAN}
    \cup {St("p2pkh", "legacy", PkhScript(K1, c), 5, <<K1>>, c) : c \in BOOLEAN}
    \cup {St("sigscript-p2pkh", "legacy", PkhScript(K1, c), 5, <<K1>>, c) : c \in BOOLEAN}
    \cup {St("multisig-1of2", "legacy", Multi12, 5, <<K1>>, TRUE),
          St("multisig-2of2", "legacy", Multi22, 5, <<K1, K2>>, TRUE),
          St("multisig-2of3", "legacy", Multi23, 6, <<K1, K2>>, TRUE),
          St("p2sh-p2pk", "legacy", PkScript(K1, TRUE), 2, <<K1>>, TRUE),
          St("p2sh-p2pkh", "legacy", PkhScript(K1, TRUE), 5, <<K1>>, TRUE),
          St("p2sh-multisig-2of3", "legacy", Multi23, 6, <<K1, K2>>, TRUE),
          \* signed in two passes (the second key first), merged by the helper
          St("multisig-2of2-merged", "legacy", Multi22, 5, <<K1, K2>>, TRUE),
          St("p2sh-multisig-2of3-merged", "legacy", Multi23, 6, <<K1, K2>>, TRUE),
          St("p2sh-p2wpkh", "v0", PkhScript(K1, TRUE), 5, <<K1>>, TRUE),
          St("p2wsh-p2pk", "v0", PkScript(K1, TRUE), 2, <<K1>>, TRUE),
          St("p2wsh-multisig-2of3", "v0", Multi23, 6, <<K1, K2>>, TRUE),
          St("p2sh-p2wsh-multisig-2of2", "v0", Multi22, 5, <<K1, K2>>, TRUE),
          St("p2tr-bip86", "keypath", << >>, 0, <<K1>>, TRUE),
          St("p2tr-keypath-with-root", "keypath", << >>, 0, <<K1>>, TRUE),
          St("p2tr-leaf", "tapscript", <<Key(K1), CheckSig>>, 2, <<K1>>, TRUE)}
    \cup {St("p2wpkh", "v0", PkhScript(K1, c), 5, <<K1>>, c) : c \in BOOLEAN}

SignerCtx(st, ht, idx) ==
    [ alg |-> st.alg, shape |-> st.otype, script |-> st.script, pos |-> st.pos, key |-> st.keys[1],
      sigs |-> {}, ht |-> ht, idx |-> idx, annex |-> None ]

\* what must happen.  hts[i] is the hash type signer i (keys[i]) signs with:
\* the same for all signers of a one-call helper; the cosigners of a multisig
\* that sign in rounds (each round merges the previous script) choose their
\* own.  The helper returns an error exactly when a signer has no digest;
\* otherwise signature i is by key i, carries hash type byte hts[i] and is
\* over the digest OF THAT hash type, and the spend executes under the
\* consensus flags; under the standard verify flags it executes iff every
\* hash type is a defined one and (witness v0) the key is compressed
SignerExpect(tx, st, c, hts) ==
    LET ds == [i \in 1..Len(hts) |-> Digest(tx, [c EXCEPT !.ht = hts[i]])]
        noDigest == \E i \in 1..Len(hts) : ds[i] = DigestErr
    IN [ digests |-> ds,
         api     |-> ApiArgs(c),
         err     |-> noDigest,
         cons    |-> ~noDigest,
         std     |-> /\ ~noDigest
                     /\ (st.alg \in {"legacy", "v0"} => \A i \in 1..Len(hts) : EcdsaDefined(hts[i]))
                     /\ (st.alg = "v0" => st.comp) ]

-----------------------------------------------------------------------------
(* cases *)

NoExpect == [none |-> TRUE]

TxShapes == IF Thorough THEN {<<ni, no>> : ni \in 1..3, no \in 0..3}
                        ELSE {<<1, 0>>, <<1, 1>>, <<1, 2>>, <<2, 1>>, <<2, 2>>, <<3, 0>>, <<3, 2>>, <<3, 3>>}

\* groups only spread the enumeration over TLC's workers
Groups ==
         {[of |-> "shape", alg |-> alg, nin |-> s[1], nout |-> s[2]] : alg \in Algs, s \in TxShapes}
    \cup {[of |-> "script", alg |-> alg] : alg \in Algs \ {"keypath"}}
    \cup {[of |-> "byte", alg |-> alg, acp |-> a] : alg \in Algs, a \in BOOLEAN}
    \cup {[of |-> "signer", alg |-> alg] : alg \in Algs}

SigExpect(tx, c, withMuts) ==
    LET d  == Digest(tx, c)
        ms == IF withMuts THEN Mutations(tx, c) ELSE << >>
    IN [ digest  |-> d,
         api     |-> ApiArgs(c),
         commits |-> CommitsOf(d),
         muts    |-> [k \in 1..Len(ms) |-> <<ms[k], Changes(tx, c, ms[k])>>] ]

SigCase(tx, c, fam) == [kind |-> "sig", fam |-> fam, tx |-> tx, ctx |-> c]

\* family "shape": every transaction shape x input x representative hash type,
\* basic scripts, annex or not, all mutations
PickShape(g) ==
    \E idx \in 1..g.nin, ht \in Reps(g.alg), sh \in BasicShapes(g.alg), ax \in Annexes(g.alg) :
        LET tx == MkTx(g.nin, g.nout)
            c  == Ctx(g.alg, sh, ht, idx, ax)
        IN /\ case' = SigCase(tx, c, "shape")
           /\ expect' = SigExpect(tx, c, TRUE)

\* family "script": every script shape, on two-input two-output (and, in the
\* thorough tier, every) transactions
ScriptHts(alg) == IF Thorough THEN Reps(alg) ELSE {1, 3, 130}
ScriptTxs      == IF Thorough THEN TxShapes ELSE {<<2, 2>>}
PickScript(g) ==
    \E s \in ScriptTxs, ht \in ScriptHts(g.alg), sh \in ScriptShapes(g.alg) \ BasicShapes(g.alg), ax \in Annexes(g.alg) :
      \E idx \in 1..s[1] :
        LET tx == MkTx(s[1], s[2])
            c  == Ctx(g.alg, sh, ht, idx, ax)
        IN /\ case' = SigCase(tx, c, "script")
           /\ expect' = SigExpect(tx, c, TRUE)

\* family "byte": all 256 hash type bytes, one input with and one without a
\* matching output
ByteTxs == IF Thorough THEN {<<2, 2, 2>>, <<3, 2, 3>>, <<1, 0, 1>>, <<3, 3, 1>>} ELSE {<<2, 2, 2>>, <<3, 2, 3>>}
PickByte(g) ==
    \E ht \in {b \in 0..255 : Acp(b) = g.acp}, sh \in BasicShapes(g.alg), ax \in Annexes(g.alg), w \in ByteTxs :
        LET tx == MkTx(w[1], w[2])
            c  == Ctx(g.alg, sh, ht, w[3], ax)
        IN /\ case' = SigCase(tx, c, "byte")
           /\ expect' = SigExpect(tx, c, FALSE)

SignerHts(alg) == IF alg \in {"legacy", "v0"} THEN {0, 1, 2, 3, 129, 130, 131, 4, 163} ELSE {0, 1, 2, 3, 129, 130, 131, 4, 128}
SignerTxs == IF Thorough THEN {<<1, 1, 1>>, <<2, 2, 1>>, <<2, 2, 2>>, <<3, 2, 3>>, <<2, 0, 1>>, <<3, 3, 2>>}
                         ELSE {<<2, 2, 2>>, <<3, 2, 3>>}
IsMerged(st) == st.otype \in {"multisig-2of2-merged", "p2sh-multisig-2of3-merged"}

SignerCase(tx, st, c, hts, order) ==
    [kind |-> "signer", tx |-> tx, ctx |-> c, otype |-> st.otype, keys |-> st.keys, comp |-> st.comp, hts |-> hts, order |-> order]

\* signing in rounds: every pair of defined hash types for the two cosigners
\* (equal, different base type, same base type with a different ANYONECANPAY
\* bit), a few undefined ones, either cosigner first, on transactions with
\* at least two inputs (with one input ANYONECANPAY changes nothing but the byte)
DefinedHts == {1, 2, 3, 129, 130, 131}
MergePairs == {<<a, b>> : a \in DefinedHts, b \in DefinedHts} \cup {<<0, 0>>, <<4, 129>>, <<131, 163>>}
MergeTxs   == {w \in SignerTxs : w[1] >= 2}

PickSigner(g) ==
    \/ \E st \in {x \in SignerTypes : x.alg = g.alg /\ ~IsMerged(x)}, ht \in SignerHts(g.alg), w \in SignerTxs :
          LET tx  == MkTx(w[1], w[2])
              c   == SignerCtx(st, ht, w[3])
              hts == [i \in 1..Len(st.keys) |-> ht]
          IN /\ case' = SignerCase(tx, st, c, hts, "once")
             /\ expect' = SignerExpect(tx, st, c, hts)
    \/ \E st \in {x \in SignerTypes : x.alg = g.alg /\ IsMerged(x)}, pr \in MergePairs, w \in MergeTxs, order \in {"first-key-first", "last-key-first"} :
          LET tx  == MkTx(w[1], w[2])
              c   == SignerCtx(st, pr[1], w[3])
          IN /\ case' = SignerCase(tx, st, c, pr, order)
             /\ expect' = SignerExpect(tx, st, c, pr)

Init == case = [kind |-> "root"] /\ expect = NoExpect

Group == /\ case.kind = "root"
         /\ \E g \in Groups : case' = [kind |-> "group", g |-> g]
         /\ expect' = NoExpect

PickShapeCase  == case.kind = "group" /\ case.g.of = "shape"  /\ PickShape(case.g)
PickScriptCase == case.kind = "group" /\ case.g.of = "script" /\ PickScript(case.g)
PickByteCase   == case.kind = "group" /\ case.g.of = "byte"   /\ PickByte(case.g)
PickSignerCase == case.kind = "group" /\ case.g.of = "signer" /\ PickSigner(case.g)

Next == Group \/ PickShapeCase \/ PickScriptCase \/ PickByteCase \/ PickSignerCase

Spec == Init /\ [][Next]_vars

-----------------------------------------------------------------------------
(* lemmas, checked in every enumerated state *)

IsSig    == case.kind = "sig"
Hashed   == expect.digest[1] \in {"hash256", "tagged"}
CTX      == case.ctx
TX       == case.tx
CM       == expect.commits
NIn      == Len(TX.ins)
NOut     == Len(TX.outs)
InF(i, f)  == FieldOf(TX.ins[i][f])
OutFs(j)   == {FieldOf(TX.outs[j].val), FieldOf(TX.outs[j].pk)}
CBase    == Base(CTX.ht)
CAcp     == Acp(CTX.ht)

\* a field mutation changes the digest exactly when the field is committed
LemmaFieldCommit ==
    IsSig => \A k \in 1..Len(expect.muts) :
                LET mu == expect.muts[k][1]
                    ch == expect.muts[k][2]
                IN MuM(mu) \in {"field", "item"} => (ch <=> FieldOf(MuA(mu)) \in CM)

\* no digest, or the constant one: nothing is committed, nothing changes it
\* except what moves the case out of that class
LemmaDegenerate ==
    IsSig /\ ~Hashed =>
        /\ CM = {}
        /\ (expect.digest = DigestOne <=> CTX.alg = "legacy" /\ CBase = "single" /\ CTX.idx > NOut)
        /\ (expect.digest = DigestErr <=> IsTap(CTX) /\ (~TapValid(CTX.ht) \/ (CBase = "single" /\ CTX.idx > NOut)))

LemmaAlways ==
    IsSig /\ Hashed =>
        /\ {<<"tx", 0, "version">>, <<"tx", 0, "locktime">>} \subseteq CM
        /\ {InF(CTX.idx, "ph"), InF(CTX.idx, "pi"), InF(CTX.idx, "seq")} \subseteq CM
        \* signature scripts and witnesses are never signed (the annex is the one exception)
        /\ \A i \in 1..NIn : InF(i, "ss") \notin CM /\ InF(i, "wit") \notin CM
        /\ (CTX.annex # None <=> <<"annex", 0, "">> \in CM)

LemmaAnyoneCanPay ==
    IsSig /\ Hashed =>
        IF CAcp THEN \A f \in CM : f[1] = "in" => f[2] = CTX.idx
        ELSE \A i \in 1..NIn :
                /\ InF(i, "ph") \in CM /\ InF(i, "pi") \in CM
                /\ (i # CTX.idx => (InF(i, "seq") \in CM <=> (IsTap(CTX) \/ CBase = "all")))

LemmaOutputs ==
    IsSig /\ Hashed =>
        CASE CBase = "all"    -> \A j \in 1..NOut : OutFs(j) \subseteq CM
          [] CBase = "none"   -> \A f \in CM : f[1] # "out"
          [] CBase = "single" -> /\ \A f \in CM : f[1] = "out" => f[2] = CTX.idx
                                 /\ (CTX.idx <= NOut => OutFs(CTX.idx) \subseteq CM)

LemmaAmounts ==
    IsSig /\ Hashed =>
        \A i \in 1..NIn :
            LET amt == InF(i, "amt") \in CM
                pks == InF(i, "pks") \in CM
            IN CASE CTX.alg = "legacy" -> ~amt /\ ~pks
                 [] CTX.alg = "v0"     -> (amt <=> i = CTX.idx) /\ ~pks
                 [] OTHER              -> (amt <=> (i = CTX.idx \/ ~CAcp)) /\ (pks <=> amt)

\* script items: what is after the last executed separator is signed (all of
\* the leaf in tapscript); separators and the checked signature are not part
\* of a legacy script code
LemmaScript ==
    IsSig /\ Hashed /\ CTX.script # << >> =>
        LET s  == CTX.script
            ls == LastSep(s, CTX.pos)
        IN \A k \in 1..Len(s) :
              (DataOf(s[k]) # None /\ OpOf(s[k]) # "pushsig") =>
                  (FieldOf(DataOf(s[k])) \in CM <=> (CTX.alg = "tapscript" \/ k > ls
                                                      \/ \E k2 \in (ls + 1)..Len(s) : DataOf(s[k2]) = DataOf(s[k])))

\* an undefined hash type byte signs what its class representative signs
\* (up to the byte itself)
LemmaClass ==
    IsSig => \A r \in Reps(CTX.alg) :
                Class(CTX.alg, r) = Class(CTX.alg, CTX.ht) => CommitsOf(Digest(TX, [CTX EXCEPT !.ht = r])) = CM

Lemmas == /\ LemmaFieldCommit /\ LemmaDegenerate /\ LemmaAlways /\ LemmaAnyoneCanPay
          /\ LemmaOutputs /\ LemmaAmounts /\ LemmaScript /\ LemmaClass

\* signer cases
LemmaSigner ==
    case.kind = "signer" =>
        LET n == Len(case.keys)
            hashed(i) == expect.digests[i][1] \in {"hash256", "tagged"}
        IN /\ Len(case.hts) = n /\ Len(expect.digests) = n
           /\ (expect.err <=> \E i \in 1..n : expect.digests[i] = DigestErr)
           /\ (expect.std => expect.cons)
           /\ (expect.cons <=> ~expect.err)
           \* every signer's digest is the digest of the signer's own hash type ...
           /\ \A i \in 1..n : expect.digests[i] = Digest(case.tx, [case.ctx EXCEPT !.ht = case.hts[i]])
           \* ... and hash types that differ - be it only in the ANYONECANPAY bit -
           \* never share a digest (the byte itself is hashed), unless both are
           \* the constant of the SIGHASH_SINGLE bug
           /\ \A i, j \in 1..n : (case.hts[i] # case.hts[j] /\ (hashed(i) \/ hashed(j))) => expect.digests[i] # expect.digests[j]
           \* with more than one input ANYONECANPAY drops the other inputs
           /\ \A i, j \in 1..n :
                 (hashed(i) /\ hashed(j) /\ Len(case.tx.ins) > 1 /\ Acp(case.hts[i]) /\ ~Acp(case.hts[j]))
                     => CommitsOf(expect.digests[i]) # CommitsOf(expect.digests[j])
           /\ (case.order # "once" => n = 2 /\ Len(case.tx.ins) >= 2)
=============================================================================
