SPECIFICATION Spec
CONSTANT Tier = "quick"
INVARIANTS Lemmas LemmaSigner
