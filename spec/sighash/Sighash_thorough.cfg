SPECIFICATION Spec
CONSTANT Tier = "thorough"
INVARIANTS Lemmas LemmaSigner
