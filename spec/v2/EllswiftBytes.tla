--------------------------- MODULE EllswiftBytes ---------------------------
(***************************************************************************)
(* C19, last clause: the byte-level ElligatorSwift entry points            *)
(* (ellswift.EllswiftECDHXOnly / V2Ecdh take a 64-byte encoding u || t).   *)
(*                                                                         *)
(* Field arithmetic is not specified here (see the limits of C19).  What   *)
(* is specified is the part of BIP324's ellswift_decode that precedes it:  *)
(* each 32-byte half is an integer in 0..2^256-1 that is reduced modulo    *)
(* the field prime p INDEPENDENTLY of the other half, and XSwiftEC then    *)
(* replaces a zero u or t by one.  The halves are enumerated by boundary   *)
(* class; the binder concretises a class to bytes, feeds the 64 bytes to   *)
(* the public entry points and compares the x-coordinate with a big-int    *)
(* evaluation of the XSwiftEC formula on the CANONICAL values this module  *)
(* prescribes (out.u, out.t).  Inputs with equal `out` must decode alike.  *)
(***************************************************************************)
EXTENDS Naturals

CONSTANTS HalfClasses,   \* subset of {"zero","one","pm1","p","pp1","max","rand"}
          Instances      \* how many concrete draws per pair of classes

VARIABLES uc, tc, inst, out, last

\* value of the 32 bytes            reduced modulo p
\*   zero  0                         zero
\*   one   1                         one
\*   pm1   p - 1                     pm1
\*   p     p                         zero
\*   pp1   p + 1                     one
\*   max   2^256 - 1                 maxmp  (= 2^256 - 1 - p = 2^32 + 976)
\*   rand  random in 2..p-2          rand
Reduce(c) == CASE c = "p"   -> "zero"
               [] c = "pp1" -> "one"
               [] c = "max" -> "maxmp"
               [] OTHER     -> c

\* XSwiftEC steps 1 and 2: u' = u if u # 0 else 1 (same for t)
NonZero(c) == IF c = "zero" THEN "one" ELSE c

Canonical == {"one", "pm1", "maxmp", "rand"}

Init == /\ uc \in HalfClasses /\ tc \in HalfClasses /\ inst \in 1..Instances
        /\ out = [kind |-> "none"]
        /\ last = [a |-> "Init"]

Decode == /\ out.kind = "none"
          /\ out' = [kind |-> "x", u |-> NonZero(Reduce(uc)), t |-> NonZero(Reduce(tc))]
          /\ last' = [a |-> "Decode"]
          /\ UNCHANGED <<uc, tc, inst>>

Next == Decode

\* what reaches the field formula is always a canonical non-zero class, and
\* the reduction of one half never depends on the other half
WellReduced == out.kind = "x" => (out.u \in Canonical /\ out.t \in Canonical)
Independent == out.kind = "x" => (out.u = NonZero(Reduce(uc)) /\ out.t = NonZero(Reduce(tc)))
=============================================================================
