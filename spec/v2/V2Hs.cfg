\* = the thorough-tier job "hs-check" of harness/internal/v2/tiers.go (the binder generates its cfg texts; these files are the canonical stand-alone configurations)
\* Handshake-focused exhaustive configuration: every garbage-length class on
\* both sides, 0..2 decoys, v1 / wrong-network / partial-prefix initiators,
\* one application packet per side, every single channel fault.
CONSTANTS
  RekeyInterval = 3
  MaxGarbage = 4095
  GarbageLens = {0, 1, 15, 16, 4094, 4095}
  DecoyCounts = {0, 1, 2}
  Hellos = {"v2", "v1", "v1wrong"}
  Encodings = {"canon", "uplusp"}
  PrefixMatches = {0, 1, 4, 15}
  Sizes = {1}
  IgnoreOpts = {FALSE}
  MaxApp = 1
  MaxRefused = 0
  MaxFlight = 8
  Senders = {"I", "R"}
  MaxFaults = 1
  FaultKinds = {"flip", "trunc", "drop", "dup", "swap"}
  FaultSeqs = {0,1,2,3,4,5,6,7,8,9,10,11,12,13,14,15,16}
  TrackNonces = TRUE
INIT Init
NEXT Next
INVARIANTS TypeOK Agreement InOrder Authenticated NonceUnique RekeySchedule NoFalseError AllDelivered CounterSync V1Fallback
