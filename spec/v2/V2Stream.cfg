\* = the thorough-tier job "stream2-I" of harness/internal/v2/tiers.go; "stream2-R" is the same with Senders = {"R"}
\* Stream-focused exhaustive configuration: rekey interval 3, enough packets
\* in each direction to cross two rekey boundaries (version/decoy packets
\* count as uses), ignore flags, up to two channel faults at every position.
CONSTANTS
  RekeyInterval = 3
  MaxGarbage = 4095
  GarbageLens = {0, 15}
  DecoyCounts = {0, 1}
  Hellos = {"v2"}
  Encodings = {"canon"}
  PrefixMatches = {0}
  Sizes = {1}
  IgnoreOpts = {FALSE, TRUE}
  MaxApp = 6
  MaxRefused = 1
  MaxFlight = 2
  Senders = {"I"}
  MaxFaults = 2
  FaultKinds = {"flip", "trunc", "drop", "dup", "swap"}
  FaultSeqs = {0,1,2,3,4,5,6,7,8,9,10,11,12,13,14,15,16}
  TrackNonces = TRUE
INIT Init
NEXT Next
INVARIANTS TypeOK Agreement InOrder Authenticated NonceUnique RekeySchedule NoFalseError AllDelivered CounterSync V1Fallback
