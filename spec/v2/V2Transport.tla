---------------------------- MODULE V2Transport ----------------------------
(***************************************************************************)
(* C19 - the BIP324 encrypted transport of btcd (v2transport.Peer).        *)
(*                                                                         *)
(* Two endpoints, "I" (initiator) and "R" (responder), and an adversarial  *)
(* byte channel per direction.  Cryptography is symbolic:                  *)
(*   secret term of e   = <<initiator key as seen by e, responder key ..>>*)
(*   session key term   = <<secret, sending role, "L"|"P", epoch>>         *)
(*   packet             = lenCipher(keyL, chunk index) ||                  *)
(*                        aead(keyP, nonce = <<ctr % RI, ctr \div RI>>,    *)
(*                             aad, header(ignore) || content)             *)
(* A receiver opens a packet iff every term equals what its own counters   *)
(* and secret predict and no byte was altered.  The length cipher and the  *)
(* AEAD have independent use counters and rekey every RekeyInterval uses.  *)
(*                                                                         *)
(* The actions are shaped like the code:                                   *)
(*   ISendKey    InitiateV2Handshake                (key || garbage)       *)
(*   RRecvKey    RespondV2Handshake + the sending half of CompleteHandshake*)
(*               (v1-prefix detection, key || garbage, terminator, decoys, *)
(*               version packet)                                           *)
(*   IRecvKey    completeKeyExchange + sending half of CompleteHandshake   *)
(*   RecvScan    the garbage-terminator scan of CompleteHandshake          *)
(*   RecvPkt     one iteration of the loop in V2ReceivePacket              *)
(*   Send        V2EncPacket                                               *)
(*   SendRefused V2EncPacket with oversized contents (refused, no effect)  *)
(* and Flip / Trunc / Drop / Dup / Swap are the channel adversary acting on*)
(* the units in flight.                                                    *)
(***************************************************************************)
EXTENDS Naturals, Sequences, FiniteSets, TLC

CONSTANTS
  RekeyInterval,   \* 224 in the code; 3 in exhaustive runs
  MaxGarbage,      \* 4095
  GarbageLens,     \* garbage lengths either side may choose
  DecoyCounts,     \* number of decoy packets sent during the handshake
  Hellos,          \* subset of {"v2","v1","v1wrong"}: what the initiator is
  Encodings,       \* subset of {"canon","uplusp"}: how keys are encoded on the wire;
                   \* "uplusp" = the u half of an ElligatorSwift key is sent as u + p
                   \* (non-canonical, decodes to the same point; see EllswiftBytes.tla)
  PrefixMatches,   \* how many leading bytes of a v2 key equal the v1 prefix (0..15)
  Sizes,           \* content lengths of application packets
  IgnoreOpts,      \* subset of BOOLEAN
  MaxApp,          \* application packets per sender
  MaxRefused,      \* oversized (refused) send attempts per sender
  MaxFlight,       \* cap on units in flight per direction for Send
  Senders,         \* endpoints that send application packets
  MaxFaults,
  FaultKinds,      \* subset of {"flip","trunc","drop","dup","swap"}
  FaultSeqs,       \* unit sequence numbers the adversary may touch
  TrackNonces      \* BOOLEAN: keep the set of used (key, nonce) pairs

VARIABLES
  sc,      \* the scenario (chosen in Init, constant afterwards)
  st,      \* [E -> endpoint state], mirrors v2transport.Peer
  wire,    \* wire[e]: units written by e, not yet read by its peer
  closed,  \* closed[e]: e's outgoing stream was cut; later writes are lost
  nseq,    \* nseq[e]: sequence number of the next unit e writes
  pend,    \* ghost: non-ignored application contents sent by e, not yet delivered
  napp,    \* application packets sent by e
  eaten,   \* ghost: units of e's stream consumed by the peer
  clean,   \* ghost: everything consumed from e's stream so far was genuine and in order
  nfaults,
  used,    \* ghost: (key term, nonce) pairs used for encryption
  bad,     \* ghost: property violations detected inside actions
  last,    \* the action just taken and its arguments (read by the binder)
  out      \* what the action handed to the application / returned (the oracle);
           \* for errors, why = "now": the call fails with the bytes it has,
           \* "auth": the length was read correctly and the AEAD check fails,
           \* "desync": the length field itself decrypts to garbage, so the
           \* receiver fails on whatever it reads next or when the stream ends

vars == <<sc, st, wire, closed, nseq, pend, napp, eaten, clean, nfaults, used, bad, last, out>>

E == {"I", "R"}
P(e) == IF e = "I" THEN "R" ELSE "I"
RI == RekeyInterval

KeyT(s, role, c, epoch) == <<s, role, c, epoch>>
Nonce(ctr) == <<ctr % RI, ctr \div RI>>

Garb(e)   == IF e = "I" THEN sc.gI ELSE sc.gR
Decoys(e) == IF e = "I" THEN sc.dI ELSE sc.dR
DecoyLen(i) == IF i = 1 THEN 0 ELSE 8

\* associated data of the first packet e sends: its own garbage
OwnAad(e) == IF Garb(e) = 0 THEN <<>> ELSE << <<"garb", e, Garb(e), "none">> >>

KeyU(e, val, pm) ==
  [k |-> "key", seq |-> 0, len |-> 64, tam |-> "none", id |-> [val |-> val, pm |-> pm, enc |-> sc.enc]]
GarbU(e) ==
  [k |-> "garb", seq |-> 1, len |-> Garb(e), tam |-> "none", id |-> [from |-> e]]
TermU(e, s, seq) ==
  [k |-> "term", seq |-> seq, len |-> 16, tam |-> "none", id |-> [sec |-> s, from |-> e]]
PktU(e, s, cL, cP, aad, ign, content, size, seq) ==
  [k |-> "pkt", seq |-> seq, len |-> 20 + size, tam |-> "none",
   id |-> [lk |-> KeyT(s, e, "L", cL \div RI), li |-> cL % RI,
           pk |-> KeyT(s, e, "P", cP \div RI), nonce |-> Nonce(cP),
           aad |-> aad, ign |-> ign, content |-> content, size |-> size]]

KeyAndGarbage(e, val, pm) ==
  IF Garb(e) = 0 THEN <<KeyU(e, val, pm)>> ELSE <<KeyU(e, val, pm), GarbU(e)>>

\* terminator, decoys, version packet (the sending half of CompleteHandshake)
HsUnits(e, s, base) ==
  <<TermU(e, s, base)>> \o
  [i \in 1..(Decoys(e) + 1) |->
     PktU(e, s, i - 1, i - 1, IF i = 1 THEN OwnAad(e) ELSE <<>>, i <= Decoys(e),
          IF i <= Decoys(e) THEN <<"decoy", i>> ELSE <<"version">>,
          IF i <= Decoys(e) THEN DecoyLen(i) ELSE 0, base + i)]

HsNonces(e, s) == {<<KeyT(s, e, "P", (i - 1) \div RI), Nonce(i - 1)>> : i \in 1..(Decoys(e) + 1)}

Chunk(u) == IF u.k = "garb" THEN <<"garb", u.id.from, u.len, u.tam>>
            ELSE <<"junk", u.k, u.seq, u.tam>>

Put(e, us) == IF closed[e] THEN wire[e] ELSE wire[e] \o us

InitSt == [ph |-> "init", sec |-> <<"none", "none">>, sL |-> 0, sP |-> 0, rL |-> 0, rP |-> 0,
           rgarb |-> <<>>, rlen |-> 0, first |-> TRUE, nref |-> 0]

NoOut == [kind |-> "none"]

\* the scenarios; a model may override this with an explicit set of records
\* (mf = the number of channel faults, mr = the number of refused oversized
\* sends per sender allowed in this scenario)
ScenarioSpace == [gI : GarbageLens, gR : GarbageLens, dI : DecoyCounts, dR : DecoyCounts,
                  hello : Hellos, pm : PrefixMatches, mf : {MaxFaults}, mr : {MaxRefused}, enc : Encodings]

Init ==
  /\ sc \in ScenarioSpace
  /\ (sc.hello # "v2" => sc.pm = 0 /\ sc.gI = 0 /\ sc.dI = 0)
  /\ (sc.enc # "canon" => sc.pm = 0)  \* u + p starts with 0xff: never a v1 prefix
  /\ st = [e \in E |-> IF e = "R" THEN [InitSt EXCEPT !.ph = "wantkey"] ELSE InitSt]
  /\ wire = [e \in E |-> <<>>]
  /\ closed = [e \in E |-> FALSE]
  /\ nseq = [e \in E |-> 0]
  /\ pend = [e \in E |-> <<>>]
  /\ napp = [e \in E |-> 0]
  /\ eaten = [e \in E |-> 0]
  /\ clean = [e \in E |-> TRUE]
  /\ nfaults = 0
  /\ used = {}
  /\ bad = [auth |-> FALSE, nonce |-> FALSE, order |-> FALSE]
  /\ last = [a |-> "Init"]
  /\ out = NoOut

\* ghost bookkeeping when the peer of s consumes unit u of s's stream
Eat(s, u) ==
  /\ eaten' = [eaten EXCEPT ![s] = @ + 1]
  /\ clean' = [clean EXCEPT ![s] = @ /\ u.tam = "none" /\ u.seq = eaten[s]]

UseNonces(ns) ==
  IF TrackNonces
  THEN /\ used' = used \cup ns
       /\ bad' = [bad EXCEPT !.nonce = @ \/ (ns \cap used # {})]
  ELSE /\ used' = used /\ bad' = bad

-----------------------------------------------------------------------------
(* Handshake *)

ISendKey ==
  /\ st["I"].ph = "init"
  /\ LET val == IF sc.hello = "v2" THEN "kI" ELSE sc.hello
         us  == KeyAndGarbage("I", val, sc.pm) IN
     /\ wire' = [wire EXCEPT !["I"] = Put("I", us)]
     /\ nseq' = [nseq EXCEPT !["I"] = Len(us)]
     /\ st' = [st EXCEPT !["I"].ph = IF sc.hello = "v2" THEN "wantkey" ELSE "v1client"]
  /\ last' = [a |-> "ISendKey", e |-> "I"]
  /\ out' = NoOut
  /\ UNCHANGED <<sc, closed, pend, napp, eaten, clean, nfaults, used, bad>>

\* RespondV2Handshake: classify the first bytes, answer with key || garbage,
\* read the rest of the key, derive the ciphers; then the sending half of
\* CompleteHandshake.
RRecvKey ==
  /\ st["R"].ph = "wantkey"
  /\ wire["I"] # <<>>
  /\ LET u == Head(wire["I"]) IN
     /\ wire' = [wire EXCEPT !["I"] = Tail(@),
                             !["R"] = IF u.tam = "cut0" \/ (u.tam # "cut" /\ u.id.val = "v1") THEN @
                                      ELSE IF u.tam = "cut" \/ u.id.val = "v1wrong" THEN Put("R", KeyAndGarbage("R", "kR", 0))
                                      ELSE LET s == <<IF u.tam = "none" THEN u.id.val ELSE "X", "kR">>
                                               kg == KeyAndGarbage("R", "kR", 0) IN
                                           Put("R", kg \o HsUnits("R", s, Len(kg)))]
     /\ Eat("I", u)
     /\ IF u.tam \in {"cut", "cut0"}
        THEN \* the stream ends inside the key: with "cut" the first byte that
             \* differs from the v1 prefix still arrived, so key || garbage was
             \* already written when the read of the remaining bytes fails
             /\ st' = [st EXCEPT !["R"].ph = "err"]
             /\ out' = [kind |-> "err", why |-> "now"]
             /\ nseq' = [nseq EXCEPT !["R"] = IF u.tam = "cut" THEN Len(KeyAndGarbage("R", "kR", 0)) ELSE @]
             /\ used' = used /\ bad' = bad
        ELSE IF u.id.val = "v1"
        THEN /\ st' = [st EXCEPT !["R"].ph = "v1"]
             /\ out' = [kind |-> "usev1", consumed |-> 16] /\ nseq' = nseq /\ used' = used /\ bad' = bad
        ELSE IF u.id.val = "v1wrong"
        THEN /\ st' = [st EXCEPT !["R"].ph = "err"]
             /\ out' = [kind |-> "err", why |-> "now"]
             /\ nseq' = [nseq EXCEPT !["R"] = Len(KeyAndGarbage("R", "kR", 0))]
             /\ used' = used /\ bad' = bad
        ELSE LET s == <<IF u.tam = "none" THEN u.id.val ELSE "X", "kR">>
                 kg == KeyAndGarbage("R", "kR", 0) IN
             /\ st' = [st EXCEPT !["R"].ph = "scan", !["R"].sec = s,
                                 !["R"].sL = Decoys("R") + 1, !["R"].sP = Decoys("R") + 1]
             /\ nseq' = [nseq EXCEPT !["R"] = Len(kg) + Decoys("R") + 2]
             /\ UseNonces(HsNonces("R", s))
             /\ out' = NoOut
  /\ last' = [a |-> "RRecvKey", e |-> "R"]
  /\ UNCHANGED <<sc, closed, pend, napp, nfaults>>

\* completeKeyExchange(initiating) + the sending half of CompleteHandshake
IRecvKey ==
  /\ st["I"].ph = "wantkey"
  /\ wire["R"] # <<>>
  /\ LET u == Head(wire["R"])
         s == <<"kI", IF u.tam = "none" /\ u.k = "key" THEN u.id.val ELSE "X">> IN
     /\ Eat("R", u)
     /\ IF u.tam = "cut"
        THEN /\ st' = [st EXCEPT !["I"].ph = "err"]
             /\ wire' = [wire EXCEPT !["R"] = Tail(@)]
             /\ out' = [kind |-> "err", why |-> "now"] /\ nseq' = nseq /\ used' = used /\ bad' = bad
        ELSE /\ st' = [st EXCEPT !["I"].ph = "scan", !["I"].sec = s,
                                 !["I"].sL = Decoys("I") + 1, !["I"].sP = Decoys("I") + 1]
             /\ wire' = [wire EXCEPT !["R"] = Tail(@), !["I"] = Put("I", HsUnits("I", s, nseq["I"]))]
             /\ nseq' = [nseq EXCEPT !["I"] = @ + Decoys("I") + 2]
             /\ UseNonces(HsNonces("I", s))
             /\ out' = NoOut
  /\ last' = [a |-> "IRecvKey", e |-> "I"]
  /\ UNCHANGED <<sc, closed, pend, napp, nfaults>>

\* the garbage-terminator scan: bytes are absorbed until the last 16 equal the
\* peer's terminator; at most MaxGarbage + 16 bytes are read.
RecvScanE(e) ==
  /\ st[e].ph = "scan"
  /\ wire[P(e)] # <<>>
  /\ LET u == Head(wire[P(e)])
         isTerm == u.k = "term" /\ u.tam = "none" /\ u.id.sec = st[e].sec /\ u.id.from = P(e)
         rl == st[e].rlen + u.len IN
     /\ wire' = [wire EXCEPT ![P(e)] = Tail(@)]
     /\ Eat(P(e), u)
     /\ IF u.tam = "cut"
        THEN st' = [st EXCEPT ![e].ph = "err"] /\ out' = [kind |-> "err", why |-> "now"]
        ELSE IF isTerm
        THEN IF st[e].rlen <= MaxGarbage
             THEN st' = [st EXCEPT ![e].ph = "hs"] /\ out' = NoOut
             ELSE st' = [st EXCEPT ![e].ph = "err"] /\ out' = [kind |-> "err", why |-> "now"]
        ELSE IF rl >= MaxGarbage + 16
             THEN st' = [st EXCEPT ![e].ph = "err", ![e].rlen = rl] /\ out' = [kind |-> "err", why |-> "now"]
             ELSE st' = [st EXCEPT ![e].rlen = rl, ![e].rgarb = Append(@, Chunk(u))] /\ out' = NoOut
  /\ last' = [a |-> "RecvScan", e |-> e]
  /\ UNCHANGED <<sc, closed, nseq, pend, napp, nfaults, used, bad>>

-----------------------------------------------------------------------------
(* Packets *)

\* one iteration of the V2ReceivePacket loop (also used by CompleteHandshake
\* for the decoys and the version packet)
RecvPktE(e) ==
  /\ st[e].ph \in {"hs", "ready"}
  /\ wire[P(e)] # <<>>
  /\ LET u == Head(wire[P(e)])
         s == st[e].sec
         p == P(e)
         lenOK  == /\ u.k = "pkt" /\ u.tam = "none"
                   /\ u.id.lk = KeyT(s, p, "L", st[e].rL \div RI) /\ u.id.li = st[e].rL % RI
         bodyOK == /\ lenOK
                   /\ u.id.pk = KeyT(s, p, "P", st[e].rP \div RI) /\ u.id.nonce = Nonce(st[e].rP)
                   /\ u.id.aad = (IF st[e].first THEN st[e].rgarb ELSE <<>>) IN
     /\ wire' = [wire EXCEPT ![p] = Tail(@)]
     /\ Eat(p, u)
     /\ IF ~bodyOK
        THEN /\ st' = [st EXCEPT ![e].ph = "err"]
             /\ out' = [kind |-> "err", why |-> IF lenOK THEN "auth" ELSE "desync"]
             /\ pend' = pend /\ bad' = bad
        ELSE /\ st' = [st EXCEPT ![e].rL = @ + 1, ![e].rP = @ + 1, ![e].first = FALSE,
                                 ![e].ph = IF u.id.ign THEN @ ELSE "ready"]
             /\ IF u.id.ign THEN out' = [kind |-> "ignored"] /\ pend' = pend
                ELSE IF st[e].ph = "hs" THEN out' = [kind |-> "hsdone"] /\ pend' = pend
                ELSE /\ out' = [kind |-> "app", content |-> u.id.content, size |-> u.id.size]
                     /\ pend' = [pend EXCEPT ![p] = IF @ = <<>> THEN @ ELSE Tail(@)]
             /\ bad' = [bad EXCEPT
                  !.order = @ \/ ~(clean[p] /\ u.seq = eaten[p]),
                  !.auth  = @ \/ (~u.id.ign /\ st[e].ph = "ready" /\
                                  (pend[p] = <<>> \/ Head(pend[p]) # u.id.content))]
  /\ last' = [a |-> "RecvPkt", e |-> e]
  /\ UNCHANGED <<sc, closed, nseq, napp, nfaults, used>>

\* V2EncPacket(contents, nil, ignore)
SendE(e, ign, size) ==
  /\ e \in Senders
  /\ st[e].ph = "ready"
  /\ napp[e] < MaxApp
  /\ Len(wire[e]) < MaxFlight
  /\ LET content == <<e, napp[e]>>
         u == PktU(e, st[e].sec, st[e].sL, st[e].sP, <<>>, ign, content, size, nseq[e]) IN
     /\ wire' = [wire EXCEPT ![e] = Put(e, <<u>>)]
     /\ UseNonces({<<u.id.pk, u.id.nonce>>})
     /\ pend' = [pend EXCEPT ![e] = IF ign THEN @ ELSE Append(@, content)]
     /\ last' = [a |-> "Send", e |-> e, ign |-> ign, size |-> size, content |-> content,
                 ctr |-> st[e].sP, epoch |-> st[e].sP \div RI, seq |-> nseq[e]]
  /\ st' = [st EXCEPT ![e].sL = @ + 1, ![e].sP = @ + 1]
  /\ nseq' = [nseq EXCEPT ![e] = @ + 1]
  /\ napp' = [napp EXCEPT ![e] = @ + 1]
  /\ out' = NoOut
  /\ UNCHANGED <<sc, closed, eaten, clean, nfaults>>

\* V2EncPacket with contents longer than 2^24 - 1 bytes: the send is refused
\* (errContentLengthExceeded) and changes NOTHING - neither cipher counter,
\* hence not the rekey position, and not the stream.  Only the ghost count of
\* attempts moves.  Ordinary sends that follow must still be received intact
\* and in order (InOrder, CounterSync, AllDelivered cover that).  Enabled only
\* while an ordinary send can still follow.
SendRefusedE(e) ==
  /\ e \in Senders
  /\ st[e].ph = "ready"
  /\ st[e].nref < MaxRefused /\ st[e].nref < sc.mr
  /\ napp[e] < MaxApp
  /\ st' = [st EXCEPT ![e].nref = @ + 1]
  /\ last' = [a |-> "SendRefused", e |-> e, ctr |-> st[e].sP]
  /\ out' = [kind |-> "refused"]
  /\ UNCHANGED <<sc, wire, closed, nseq, pend, napp, eaten, clean, nfaults, used, bad>>

-----------------------------------------------------------------------------
(* The channel adversary; e is the sender whose stream is attacked, i the    *)
(* position among the units in flight.                                       *)

CanFault(e, i) ==
  /\ sc.hello = "v2"
  /\ nfaults < MaxFaults /\ nfaults < sc.mf
  /\ i \in 1..Len(wire[e])
  /\ wire[e][i].tam \notin {"cut", "cut0"}
  /\ wire[e][i].seq \in FaultSeqs

FaultVars(kind, e, i, part) ==
  /\ nfaults' = nfaults + 1
  /\ last' = [a |-> "Fault", kind |-> kind, e |-> e, pos |-> i, seq |-> wire[e][i].seq,
              unit |-> wire[e][i].k, part |-> part]
  /\ out' = NoOut
  /\ UNCHANGED <<sc, st, nseq, pend, napp, eaten, clean, used, bad>>

FlipAt(e, i, part) ==
  /\ "flip" \in FaultKinds /\ CanFault(e, i)
  /\ wire[e][i].tam = "none"
  /\ part \in (IF wire[e][i].k = "pkt" THEN {"len", "body"} ELSE {"flip"})
  /\ wire' = [wire EXCEPT ![e][i].tam = part]
  /\ closed' = closed
  /\ FaultVars("flip", e, i, part)

\* how = "cut": the stream ends inside unit i; for the initiator's key unit
\* "cut" means more than sc.pm bytes arrive (the responder sees the mismatch
\* with the v1 prefix) and "cut0" means at most sc.pm bytes arrive
TruncAt(e, i, how) ==
  /\ "trunc" \in FaultKinds /\ CanFault(e, i)
  /\ ~closed[e]
  /\ how = "cut0" => (e = "I" /\ wire[e][i].k = "key")
  /\ wire' = [wire EXCEPT ![e] = Append(SubSeq(@, 1, i - 1), [@[i] EXCEPT !.tam = how])]
  /\ closed' = [closed EXCEPT ![e] = TRUE]
  /\ FaultVars("trunc", e, i, how)

DropAt(e, i) ==
  /\ "drop" \in FaultKinds /\ CanFault(e, i)
  /\ wire[e][i].k # "key"
  /\ wire' = [wire EXCEPT ![e] = SubSeq(@, 1, i - 1) \o SubSeq(@, i + 1, Len(@))]
  /\ closed' = closed
  /\ FaultVars("drop", e, i, "all")

DupAt(e, i) ==
  /\ "dup" \in FaultKinds /\ CanFault(e, i)
  /\ wire[e][i].k # "key"
  /\ wire' = [wire EXCEPT ![e] = SubSeq(@, 1, i) \o SubSeq(@, i, Len(@))]
  /\ closed' = closed
  /\ FaultVars("dup", e, i, "all")

SwapAt(e, i) ==
  /\ "swap" \in FaultKinds /\ CanFault(e, i)
  /\ i + 1 <= Len(wire[e])
  /\ wire[e][i].k # "key" /\ wire[e][i + 1].tam # "cut"
  /\ wire' = [wire EXCEPT ![e] = SubSeq(@, 1, i - 1) \o <<@[i + 1], @[i]>> \o SubSeq(@, i + 2, Len(@))]
  /\ closed' = closed
  /\ FaultVars("swap", e, i, "all")

\* Each action is one parameterless definition whose body is a conjunction, so
\* that TLC reports (coverage, simulation traces, graph labels) under that name.
RecvScan == TRUE /\ \E e \in E : RecvScanE(e)
RecvPkt  == TRUE /\ \E e \in E : RecvPktE(e)
Send     == TRUE /\ \E e \in E : \E ign \in IgnoreOpts : \E size \in Sizes : SendE(e, ign, size)
SendRefused == TRUE /\ \E e \in E : SendRefusedE(e)
Flip     == TRUE /\ \E e \in E : \E i \in 1..Len(wire[e]) : \E part \in {"len", "body", "flip"} : FlipAt(e, i, part)
Trunc    == TRUE /\ \E e \in E : \E i \in 1..Len(wire[e]) : \E how \in {"cut", "cut0"} : TruncAt(e, i, how)
Drop     == TRUE /\ \E e \in E : \E i \in 1..Len(wire[e]) : DropAt(e, i)
Dup      == TRUE /\ \E e \in E : \E i \in 1..Len(wire[e]) : DupAt(e, i)
Swap     == TRUE /\ \E e \in E : \E i \in 1..Len(wire[e]) : SwapAt(e, i)

Next ==
  \/ ISendKey \/ RRecvKey \/ IRecvKey \/ RecvScan \/ RecvPkt \/ Send \/ SendRefused
  \/ Flip \/ Trunc \/ Drop \/ Dup \/ Swap

Spec == Init /\ [][Next]_vars

-----------------------------------------------------------------------------
(* The property *)

Phases == {"init", "wantkey", "scan", "hs", "ready", "err", "v1", "v1client"}

TypeOK ==
  /\ \A e \in E : st[e].ph \in Phases /\ st[e].sL \in Nat /\ st[e].rP \in Nat
  /\ nfaults \in 0..MaxFaults

\* both ends derive equal key terms: an endpoint only ever completes the
\* handshake with the genuine secret
Agreement ==
  /\ \A e \in E : st[e].ph = "ready" => st[e].sec = <<"kI", "kR">>
  /\ (st["I"].ph = "ready" /\ st["R"].ph = "ready") => st["I"].sec = st["R"].sec

\* received sequence = sent sequence restricted to non-ignored packets, in
\* order, contents equal: every delivery was the head of the pending queue
InOrder == ~bad.auth

\* any channel action other than deliver leads to an error at or before the
\* affected packet: a packet is only ever opened when everything consumed from
\* that stream so far (key, garbage, terminator, earlier packets) was genuine,
\* unmodified and in its original position
Authenticated == ~bad.order

\* no (key, nonce) pair is used twice
NonceUnique == ~bad.nonce

\* rekey schedule: length cipher and AEAD advance in lock step on a healthy
\* connection, the key epoch in every packet equals the epoch part of its nonce
\* and the in-epoch counter stays below the interval
RekeySchedule ==
  /\ \A e \in E : st[e].sL = st[e].sP
  /\ \A e \in E : st[e].ph # "err" => st[e].rL = st[e].rP
  /\ \A e \in E : \A i \in 1..Len(wire[e]) :
        wire[e][i].k = "pkt" =>
           /\ wire[e][i].id.pk[4] = wire[e][i].id.nonce[2]
           /\ wire[e][i].id.nonce[1] < RI
           /\ wire[e][i].id.li < RI

\* the channel alone never produces an error, v1 fallback aside
NoFalseError ==
  (nfaults = 0 /\ sc.hello = "v2") => \A e \in E : st[e].ph # "err" /\ clean[e]

\* without faults everything sent is delivered once the wires are empty
AllDelivered ==
  (nfaults = 0 /\ wire["I"] = <<>> /\ wire["R"] = <<>> /\
   st["I"].ph = "ready" /\ st["R"].ph = "ready") => (pend["I"] = <<>> /\ pend["R"] = <<>>)

\* receiver counters follow the sender's on an untouched stream
CounterSync ==
  \A e \in E : (nfaults = 0 /\ st[P(e)].ph \in {"hs", "ready"}) =>
     st[P(e)].rP + Cardinality({i \in 1..Len(wire[e]) : wire[e][i].k = "pkt"}) = st[e].sP

\* v1 detection: the responder stops after exactly the 16 prefix bytes and
\* writes nothing
V1Fallback == st["R"].ph = "v1" => (wire["R"] = <<>> /\ nseq["R"] = 0)

=============================================================================
