-------------------------------- MODULE BIP9 --------------------------------
(***************************************************************************)
(* The state-free part of the version-bits specification (property C14):   *)
(* a block tree, deployment definitions, the BIP9 reference (property      *)
(* layer) and the cached evaluation shaped like blockchain.thresholdState  *)
(* (implementation layer).  `deps' and `blocks' are parameters here so     *)
(* that VersionBits.tla can evaluate the same definitions on the tree as   *)
(* it is and on the tree as it will be after a block arrives.              *)
(***************************************************************************)
EXTENDS Naturals, Integers, Sequences, FiniteSets, TLC

CONSTANTS W, NetThr, K, MTPSpan

VARIABLES deps,    \* sequence of deployment definitions
          blocks   \* sequence of blocks; node id = index, 0 = genesis

DepIds   == 1..K
States   == {"defined", "started", "lockedin", "active", "failed"}
NoNode   == -1

-------------------------------------------------------------------------------
(* The block tree *)

N          == Len(blocks)
Nodes      == 0..N
Parent(n)  == IF n = 0 THEN NoNode ELSE blocks[n].parent
Height(n)  == IF n = 0 THEN 0 ELSE blocks[n].height
Time(n)    == IF n = 0 THEN 0 ELSE blocks[n].time
\* the genesis block has version 1: no version-bits top pattern
Top(n)     == IF n = 0 THEN FALSE ELSE blocks[n].top
Bits(n)    == IF n = 0 THEN {} ELSE blocks[n].bits

Leaves     == {n \in Nodes : \A m \in 1..N : blocks[m].parent # n}

RECURSIVE AncAt(_, _)
\* ancestor of n at height h (h <= Height(n)); NoNode below genesis
AncAt(n, h) == IF h < 0 THEN NoNode
               ELSE IF Height(n) = h THEN n ELSE AncAt(Parent(n), h)

RECURSIVE LastTimes(_, _)
LastTimes(n, k) == IF k = 0 \/ n = NoNode THEN <<>>
                   ELSE <<Time(n)>> \o LastTimes(Parent(n), k - 1)

\* CalcPastMedianTime: sort the timestamps of a block and its (up to)
\* MTPSpan-1 ancestors and take the element with 0-based index len/2.
MedianOf(ts) ==
    LET m   == Len(ts) \div 2
        idx == 1..Len(ts)
    IN  CHOOSE v \in {ts[i] : i \in idx} :
            /\ Cardinality({i \in idx : ts[i] < v}) <= m
            /\ m < Cardinality({i \in idx : ts[i] <= v})

\* median time past of a block with timestamp t on top of parent p
MTPOn(p, t) == MedianOf(<<t>> \o LastTimes(p, MTPSpan - 1))
\* (memoised in the block record when the block is created)
MTP(n)      == IF n = 0 THEN 0 ELSE blocks[n].mtp

-------------------------------------------------------------------------------
(* The deployment definition as the checker sees it (deploymentChecker) *)

Started(d, n)  == deps[d].start = 0 \/ MTP(n) >= deps[d].start
Ended(d, n)    == deps[d].timeout # 0 /\ MTP(n) >= deps[d].timeout
Thr(d)         == IF deps[d].thr # 0 THEN deps[d].thr ELSE NetThr
Speedy(d)      == deps[d].minh # 0 \/ deps[d].thr # 0
Cond(d, n)     == Top(n) /\ d \in Bits(n)
Eligible(d, n) == deps[d].minh = 0 \/ Height(n) + 1 >= deps[d].minh
Force(d, n)    == deps[d].always # 0 /\ Height(n) + 1 >= deps[d].always

RECURSIVE CountFrom(_, _, _)
\* number of signalling blocks among n and its k-1 ancestors
CountFrom(d, n, k) == IF k = 0 \/ n = NoNode THEN 0
                      ELSE (IF Cond(d, n) THEN 1 ELSE 0) + CountFrom(d, Parent(n), k - 1)

\* BIP9 transition for the window that follows boundary block b, given the
\* state s of the window that b closes.
Trans(d, s, b) ==
    CASE s = "defined" ->
            IF ~Speedy(d) /\ Ended(d, b) THEN "failed"
            ELSE IF Started(d, b) THEN "started"
            ELSE "defined"
      [] s = "started" ->
            IF ~Speedy(d) /\ Ended(d, b) THEN "failed"
            ELSE IF CountFrom(d, b, W) >= Thr(d) THEN "lockedin"
            ELSE IF Speedy(d) /\ Ended(d, b) THEN "failed"
            ELSE "started"
      [] s = "lockedin" -> IF Eligible(d, b) THEN "active" ELSE "lockedin"
      [] s = "active"   -> "active"
      [] s = "failed"   -> "failed"

IsBoundary(n) == (Height(n) + 1) % W = 0
\* the last block of the window before the one the successor of n is in
Boundary(n)   == AncAt(n, Height(n) - ((Height(n) + 1) % W))
PrevBoundary(b) == AncAt(b, Height(b) - W)

-------------------------------------------------------------------------------
(* Property layer: the reference *)

RECURSIVE WinState(_, _)
\* state of the window that follows boundary block b
WinState(d, b) ==
    LET pb == PrevBoundary(b)
    IN  Trans(d, IF pb = NoNode THEN "defined" ELSE WinState(d, pb), b)

\* the state machine proper
Raw(d, n) == IF Height(n) + 1 < W THEN "defined" ELSE WinState(d, Boundary(n))
\* what the node reports for the block after n
Ref(d, n) == IF Force(d, n) THEN "active" ELSE Raw(d, n)

\* bits the version proposed for the block after n must carry
NV(n)     == {d \in DepIds : Ref(d, n) \in {"started", "lockedin"}}
\* deployments whose gated rules bind the block after n
Gate(n)   == {d \in DepIds : Ref(d, n) = "active"}

\* What the property says about node n, in one record.  The binder reads its
\* expected values from here (field `exp' of `last'), never from its own code.
NodeOracle(n) ==
    LET st  == [d \in DepIds |-> Ref(d, n)]
    IN  [st   |-> st,
         raw  |-> [d \in DepIds |-> Raw(d, n)],
         nv   |-> {d \in DepIds : st[d] \in {"started", "lockedin"}},   \* = NV(n)
         gate |-> {d \in DepIds : st[d] = "active"}]                    \* = Gate(n)

-------------------------------------------------------------------------------
(* Implementation layer: thresholdState *)

RECURSIVE WalkBack(_, _, _, _)
\* walk back over window boundaries: stop at a cached one, at one that has not
\* started (cache "defined" there), or below the genesis window
WalkBack(d, b, c, needed) ==
    IF b = NoNode THEN [needed |-> needed, base |-> "defined", cache |-> c]
    ELSE IF b \in DOMAIN c THEN [needed |-> needed, base |-> c[b], cache |-> c]
    ELSE IF ~Started(d, b) THEN [needed |-> needed, base |-> "defined",
                                 cache |-> c @@ (b :> "defined")]
    ELSE WalkBack(d, PrevBoundary(b), c, Append(needed, b))

RECURSIVE Forward(_, _, _, _)
\* transition forward over needed (newest first, so consume from the end)
Forward(d, needed, s, c) ==
    IF needed = <<>> THEN [state |-> s, cache |-> c]
    ELSE LET b  == needed[Len(needed)]
             s2 == Trans(d, s, b)
         IN  Forward(d, SubSeq(needed, 1, Len(needed) - 1), s2, c @@ (b :> s2))

CachedEval(d, n, c) ==
    IF Force(d, n) THEN [state |-> "active", cache |-> c]
    ELSE IF Height(n) + 1 < W THEN [state |-> "defined", cache |-> c]
    ELSE LET wb == WalkBack(d, Boundary(n), c, <<>>)
         IN  Forward(d, wb.needed, wb.base, wb.cache)

RECURSIVE EvalAll(_, _, _, _)
\* calcNextBlockVersion: every deployment in turn, each on its own cache
EvalAll(ds, n, cs, acc) ==
    IF ds = {} THEN [bits |-> acc, cache |-> cs]
    ELSE LET d == CHOOSE x \in ds : \A y \in ds : x <= y
             r == CachedEval(d, n, cs[d])
         IN  EvalAll(ds \ {d}, n, [cs EXCEPT ![d] = r.cache],
                     IF r.state \in {"started", "lockedin"} THEN acc \cup {d} ELSE acc)

=============================================================================
