---------------------------- MODULE MCVersionBits ----------------------------
(* Menus for the model-checking configurations of VersionBits.tla. *)
EXTENDS VersionBits

V(top, bits) == [top |-> top, bits |-> bits]

\* one deployment: always signalling
Ver1Sig     == {V(TRUE, {1})}
\* one deployment: signal / no signal
Ver1SigNone == {V(TRUE, {1}), V(TRUE, {})}
\* ... plus a block that carries the bit under a wrong top-bit pattern
Ver1All     == {V(TRUE, {1}), V(TRUE, {}), V(FALSE, {1})}

\* two deployments
Ver2Sig     == {V(TRUE, {}), V(TRUE, {1}), V(TRUE, {2}), V(TRUE, {1, 2})}
Ver2All     == Ver2Sig \cup {V(FALSE, {1, 2})}
Ver2Few     == {V(TRUE, {}), V(TRUE, {1, 2}), V(TRUE, {1})}
Ver2Two     == {V(TRUE, {1, 2}), V(TRUE, {1})}

\* three deployments
Ver3Few     == {V(TRUE, {}), V(TRUE, {1, 2, 3}), V(TRUE, {1}), V(TRUE, {2, 3}),
                V(FALSE, {1, 2, 3})}
=============================================================================
