----------------------------- MODULE VersionBits -----------------------------
(***************************************************************************)
(* Property C14: soft-fork deployment state follows the BIP9 state machine *)
(* on every history.                                                       *)
(*                                                                         *)
(* Anchors: blockchain/thresholdstate.go (thresholdStateTransition,        *)
(* thresholdState, deploymentState), blockchain/versionbits.go             *)
(* (deploymentChecker, calcNextBlockVersion), chaincfg/params.go           *)
(* (ConsensusDeployment), chaincfg/deployment_time_frame.go (median-time   *)
(* starter / ender), blockchain/validate.go (rules gated on a deployment). *)
(*                                                                         *)
(* Two layers, both defined in BIP9.tla over a (definitions, tree) pair:    *)
(*  - Property layer: Ref(d, n), the BIP9 function (with the speedy-trial, *)
(*    minimum-activation-height and always-active-height extensions the    *)
(*    deployment definition carries) evaluated window by window from the   *)
(*    genesis block, without any memory; NV(n), the bits of the version    *)
(*    proposed for the next block; Gate(n), the deployments whose rules    *)
(*    bind the next block.  Everything the binder compares the real code   *)
(*    with is taken from this layer (NodeOracle, carried in `last.exp').   *)
(*  - Implementation layer: CachedEval, written like thresholdState: jump  *)
(*    to the last block of the previous window, walk back over window      *)
(*    boundaries to the nearest cached (or not-yet-started) one, then      *)
(*    transition forward and fill the cache.  ONE cache per deployment,    *)
(*    shared by all branches of the block tree.                            *)
(* This module adds the state: the tree grows block by block (AddBlock,    *)
(* which itself asks for the Implicit deployments like checkBlockContext   *)
(* does), Query / NextVer are explicit actions so that TLC explores every  *)
(* order of queries, at every node of every branch, interleaved with block *)
(* arrival.  Invariants: the cached answer is the reference whatever was   *)
(* asked before (QueryIsRef, CacheSound), Active / Failed are absorbing    *)
(* along every branch (StateMachine), the gate opens at the first block of *)
(* the Active window (GateFirst), the next version carries exactly the     *)
(* Started / LockedIn bits (NextVersionExact).                             *)
(*                                                                         *)
(* State convention (the code's): the state "at node n" is the state for   *)
(* the block AFTER n (n is prevNode).                                      *)
(***************************************************************************)
EXTENDS Naturals, Integers, Sequences, FiniteSets, TLC

CONSTANTS
    W,          \* MinerConfirmationWindow
    NetThr,     \* network-level RuleChangeActivationThreshold
    K,          \* number of deployments defined on the network
    Starts,     \* menu: start time (median time past), 0 = always started
    Timeouts,   \* menu: timeout (median time past), 0 = never
    Thrs,       \* menu: CustomActivationThreshold, 0 = use NetThr
    MinHs,      \* menu: MinActivationHeight, 0 = unset
    Alwayss,    \* menu: AlwaysActiveHeight, 0 = unset
    Implicit,   \* deployments (subset of 1..K) whose state block acceptance
                \* itself asks for at the parent (CSV / segwit in checkBlockContext)
    MaxBlocks, MaxHeight, MaxLeaves, MaxTime,
    ForkHeights,\* menu for the height of the block a side branch may start from;
                \* AnyFork = no restriction (exhaustive runs), NoFork = never
                \* (the menu only matters for random simulation, where it
                \* spreads the fork point evenly over the heights)
    Canonical,  \* TRUE: branches are built one after the other (one delivery
                \* order per tree); FALSE: any delivery order
    VerChoices, \* menu of block versions: [top : BOOLEAN, bits : SUBSET (1..K)]
    DtChoices,  \* menu: timestamp(b) = timestamp(parent) + dt - DtBase
    DtBase,     \* (configuration files cannot hold negative numbers)
    MTPSpan,    \* number of blocks in the median time (11 in the code)
    QueryAll,   \* TRUE: queries at every node; FALSE: only at the genesis block,
                \* window-boundary blocks and branch tips (a query at any other
                \* node is turned into one at its window boundary by the first
                \* step of the algorithm)
    NextVerOn,  \* enable the NextVer action (with K = 1 it acts like Query)
    CheckAll,   \* TRUE: tree invariants quantify over every node in every state;
                \* FALSE: over the newest node only (every node is the newest
                \* one in the state where it arrives and what is said about it
                \* depends on its ancestors only, which never change)
    Record      \* TRUE: `last' carries the step and the property-layer values
                \* (configurations whose behaviours are replayed on the real
                \* code); FALSE: `last' stays constant (large exhaustive runs)

VARIABLES
    forkAt,     \* the fork-point restriction chosen for this behaviour
    deps,       \* sequence of deployment definitions (filled first, then fixed)
    blocks,     \* sequence of blocks; node id = index, 0 = genesis
    cache,      \* cache[d] : window-boundary node -> state (partial function)
    last        \* the last step with its arguments and what the property says

vars == <<forkAt, deps, blocks, cache, last>>

AnyFork == 1000
NoFork  == 999

\* the tree, the reference and the cached evaluation, on the current state ...
INSTANCE BIP9
\* ... and on any other pair of definitions and tree
On(ds, bs) == INSTANCE BIP9 WITH deps <- ds, blocks <- bs

DepSpace ==
    {r \in [start : Starts, timeout : Timeouts, thr : Thrs, minh : MinHs, always : Alwayss] :
        \* A deployment cannot time out before it starts.  All real ones obey
        \* this.  For the others thresholdState's short cut "a window whose
        \* last block has not reached the start time is Defined" (which
        \* Bitcoin Core has as well) reports Defined where the plain state
        \* machine reports Failed, until the start time is reached; the check
        \* records this as an assumption instead of modelling it.
        r.timeout = 0 \/ r.start <= r.timeout}

-------------------------------------------------------------------------------
(* Actions *)

Rec(r) == IF Record THEN r ELSE [op |-> "none"]

Init ==
    /\ forkAt \in ForkHeights
    /\ deps = <<>>
    /\ blocks = <<>>
    /\ cache = [d \in DepIds |-> << >>]
    /\ last = Rec([op |-> "init"])

\* choose the deployment definitions, one per step
Configure ==
    /\ Len(deps) < K
    /\ UNCHANGED <<forkAt, blocks, cache>>
    /\ \E r \in DepSpace :
         LET nd == Append(deps, r)
         IN  /\ deps' = nd
             /\ last' = Rec(IF Len(nd) = K
                            THEN [op |-> "configured", n |-> 0,
                                  exp |-> On(nd, blocks)!NodeOracle(0)]
                            ELSE [op |-> "configure"])

Configured == Len(deps) = K

\* the blocks a new block may be built on
Parents ==
    LET lv == Leaves
    IN  {p \in Nodes :
           /\ N < MaxBlocks
           /\ Height(p) + 1 <= MaxHeight
           /\ p \in lv \/ (/\ Cardinality(lv) < MaxLeaves
                           /\ (forkAt = AnyFork \/ forkAt = Height(p)))
           /\ Canonical => p = N \/ p \notin lv}

\* A block arrives.  Its acceptance asks for the state of the Implicit
\* deployments at its parent (checkBlockContext), through the shared cache.
AddBlock ==
    /\ Configured
    /\ UNCHANGED <<forkAt, deps>>
    /\ \E p \in Parents, v \in VerChoices, dt \in DtChoices :
         LET t  == Time(p) + dt - DtBase
             id == N + 1
             nb == Append(blocks, [parent |-> p, height |-> Height(p) + 1,
                                   time |-> t, mtp |-> MTPOn(p, t),
                                   top |-> v.top, bits |-> v.bits])
         IN  /\ t >= 1 /\ t <= MaxTime
             /\ t > MTP(p)                  \* the header rule "time too old"
             /\ blocks' = nb
             /\ cache' = [d \in DepIds |->
                             IF d \in Implicit THEN CachedEval(d, p, cache[d]).cache
                             ELSE cache[d]]
             \* what the property says about the new node, in the new tree
             /\ last' = Rec([op |-> "add", n |-> id, exp |-> On(deps, nb)!NodeOracle(id)])

\* Somebody asks for the state of deployment d for the block after n.
QueryNodes == IF QueryAll THEN Nodes
              ELSE {n \in Nodes : n = 0 \/ IsBoundary(n) \/ n \in Leaves}

Query ==
    /\ Configured
    /\ \E n \in QueryNodes, d \in DepIds :
         LET r == CachedEval(d, n, cache[d])
         IN  /\ Assert(r.state = Ref(d, n), <<"query differs from the reference", n, d>>)
             /\ cache' = [cache EXCEPT ![d] = r.cache]
             /\ last' = Rec([op |-> "query", n |-> n, d |-> d, res |-> r.state,
                             exp |-> NodeOracle(n)])
    /\ UNCHANGED <<forkAt, deps, blocks>>

\* Somebody asks for the version to put in the block after n.
NextVer ==
    /\ Configured /\ NextVerOn
    /\ \E n \in QueryNodes :
         LET r == EvalAll(DepIds, n, cache, {})
         IN  /\ Assert(r.bits = NV(n), <<"next version differs from the reference", n>>)
             /\ cache' = r.cache
             /\ last' = Rec([op |-> "nextver", n |-> n, res |-> r.bits,
                             exp |-> NodeOracle(n)])
    /\ UNCHANGED <<forkAt, deps, blocks>>

Next == Configure \/ AddBlock \/ Query \/ NextVer

Spec == Init /\ [][Next]_vars

-------------------------------------------------------------------------------
(* Invariants *)

Checked == IF CheckAll THEN 1..N ELSE {N} \ {0}

TypeOK ==
    /\ Len(deps) <= K
    /\ \A n \in Checked :
                       /\ blocks[n].parent \in 0..(n - 1)
                       /\ blocks[n].height = Height(blocks[n].parent) + 1
                       /\ blocks[n].time > MTP(blocks[n].parent)
                       /\ blocks[n].mtp >= MTP(blocks[n].parent)   \* MTP is monotone
    /\ \A d \in DepIds : \A b \in DOMAIN cache[d] : b \in Nodes /\ cache[d][b] \in States

\* the answer never depends on what was asked before
QueryIsRef ==
    Configured /\ Record =>
      /\ last.op = "query"   => last.res = Ref(last.d, last.n)
      /\ last.op = "nextver" => last.res = NV(last.n)

\* no branch can poison another through the shared cache
CacheSound ==
    Configured =>
      \A d \in DepIds : \A b \in DOMAIN cache[d] : IsBoundary(b) /\ cache[d][b] = Raw(d, b)

\* along every branch: the state only changes when a window closes (or the
\* always-active height is reached), only along BIP9 edges, and Active /
\* Failed are never left (Failed only by the forced activation, which the
\* deployment definition asks for)
Edge(s, t) ==
    \/ s = t
    \/ s = "defined"  /\ t \in {"started", "failed"}
    \/ s = "started"  /\ t \in {"lockedin", "failed"}
    \/ s = "lockedin" /\ t = "active"

StateMachine ==
    Configured =>
      \A n \in Checked : \A d \in DepIds :
        LET p == Parent(n) IN
        /\ Edge(Raw(d, p), Raw(d, n))
        /\ Raw(d, p) # Raw(d, n) => IsBoundary(n)
        /\ Ref(d, p) = "active" => Ref(d, n) = "active"
        /\ Ref(d, p) = "failed" => Ref(d, n) = "failed" \/ Force(d, n)
        /\ Ref(d, n) # Raw(d, n) => Force(d, n)
        /\ Height(n) + 1 < W => Raw(d, n) = "defined"

\* gated rules switch on exactly at the first block of the Active window (or
\* at the always-active height), and never switch off
GateFirst ==
    Configured =>
      \A n \in Checked : \A d \in DepIds :
        LET p == Parent(n) IN
        /\ d \in Gate(p) => d \in Gate(n)
        /\ d \in Gate(n) /\ d \notin Gate(p) =>
              \/ Height(n) + 1 = deps[d].always
              \/ /\ (Height(n) + 1) % W = 0
                 /\ Raw(d, p) = "lockedin"
                 /\ Eligible(d, n)
        \* a locked-in deployment activates at the next window unless held
        \* back by the minimum activation height
        /\ Raw(d, p) = "lockedin" /\ IsBoundary(n) /\ Eligible(d, n) => d \in Gate(n)

\* the proposed version carries exactly the bits of Started / LockedIn
NextVersionExact ==
    Configured =>
      \A n \in Checked \cup {0} : \A d \in DepIds :
        d \in NV(n) <=> Ref(d, n) \in {"started", "lockedin"}

=============================================================================
