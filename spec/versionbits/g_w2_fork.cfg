\* Recording; W=2; a chain with one side branch from any block (6 blocks in all); graph dumped, paths replayed.
SPECIFICATION Spec
CONSTANTS
  W = 2
  NetThr = 2
  K = 1
  Starts = {0}
  Timeouts = {0}
  Thrs = {0}
  MinHs = {0}
  Alwayss = {0}
  Implicit = {}
  MaxBlocks = 6
  MaxHeight = 6
  MaxLeaves = 2
  MaxTime = 14
  ForkHeights = {1000}
  Canonical = TRUE
  DtChoices = {1}
  DtBase = 0
  MTPSpan = 11
  QueryAll = FALSE
  NextVerOn = FALSE
  CheckAll = TRUE
  Record = TRUE
  VerChoices <- Ver1SigNone
INVARIANTS TypeOK QueryIsRef CacheSound StateMachine GateFirst NextVersionExact
