\* Recording; W=2; 16 deployment definitions (start, timeout, minimum activation height, always-active height);
\* graph dumped and its transitions replayed on the real code.
SPECIFICATION Spec
CONSTANTS
  W = 2
  NetThr = 2
  K = 1
  Starts = {0, 1}
  Timeouts = {0, 3}
  Thrs = {0}
  MinHs = {0, 6}
  Alwayss = {0, 3}
  Implicit = {}
  MaxBlocks = 6
  MaxHeight = 6
  MaxLeaves = 1
  MaxTime = 14
  ForkHeights = {1000}
  Canonical = TRUE
  DtChoices = {1}
  DtBase = 0
  MTPSpan = 11
  QueryAll = FALSE
  NextVerOn = FALSE
  CheckAll = TRUE
  Record = TRUE
  VerChoices <- Ver1SigNone
INVARIANTS TypeOK QueryIsRef CacheSound StateMachine GateFirst NextVersionExact
