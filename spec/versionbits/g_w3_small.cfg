\* Recording; W=3; one deployment asked for by block acceptance; graph dumped, a covering sample of paths replayed.
SPECIFICATION Spec
CONSTANTS
  W = 3
  NetThr = 2
  K = 1
  Starts = {0}
  Timeouts = {0, 4}
  Thrs = {0}
  MinHs = {0}
  Alwayss = {0}
  Implicit = {1}
  MaxBlocks = 9
  MaxHeight = 9
  MaxLeaves = 1
  MaxTime = 14
  ForkHeights = {1000}
  Canonical = TRUE
  DtChoices = {1}
  DtBase = 0
  MTPSpan = 11
  QueryAll = FALSE
  NextVerOn = FALSE
  CheckAll = TRUE
  Record = TRUE
  VerChoices <- Ver1SigNone
INVARIANTS TypeOK QueryIsRef CacheSound StateMachine GateFirst NextVersionExact
