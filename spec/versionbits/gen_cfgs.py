#!/usr/bin/env python3
"""Writes the TLC configurations of VersionBits.tla (run in this directory).
The .cfg files are committed; this script only documents how they relate."""
INV = "INVARIANTS TypeOK QueryIsRef CacheSound StateMachine GateFirst NextVersionExact"
base = dict(W=3, NetThr=2, K=1, Starts="{0, 2}", Timeouts="{0, 3}", Thrs="{0}", MinHs="{0}", Alwayss="{0}",
            Implicit="{}", MaxBlocks=9, MaxHeight=9, MaxLeaves=1, MaxTime=14, ForkHeights="{1000}",
            Canonical="TRUE", Ver="Ver1SigNone", DtChoices="{1}", DtBase=0, MTPSpan=11,
            QueryAll="FALSE", NextVerOn="FALSE", CheckAll="FALSE", Record="FALSE")

def cfg(name, comment, inv=INV, **kw):
    d = dict(base); d.update(kw)
    ver = d.pop("Ver")
    lines = ["\\* " + l for l in comment.strip().split("\n")]
    lines += ["SPECIFICATION Spec", "CONSTANTS"]
    for k, v in d.items():
        lines.append(f"  {k} = {v}")
    lines.append(f"  VerChoices <- {ver}")
    lines.append(inv)
    open(name + ".cfg", "w").write("\n".join(lines) + "\n")

# ---- exhaustive, not recording -------------------------------------------
cfg("x_w3_linear", "W=3, one chain of 9 blocks, every vote pattern, 4 deployment definitions,\nevery order of queries at the key nodes.")
cfg("x_w2_fork", "W=2, a chain with one side branch from any block, every vote pattern.",
    W=2, NetThr=2, Starts="{0, 1}", Timeouts="{0}", MaxHeight=6, MaxBlocks=7, MaxLeaves=2)
cfg("x_w3_fork", "W=3, a chain with one side branch from any block (<= 9 blocks), every vote pattern.",
    MaxLeaves=2, MaxBlocks=9, Timeouts="{0}")
cfg("x_w3_params", "W=3, one chain of 11 blocks, every vote pattern, the whole parameter menu\n(custom threshold, minimum activation height, always-active height, timeouts).",
    MaxBlocks=11, MaxHeight=11, Timeouts="{0, 4}", Thrs="{0, 3}", MinHs="{0, 10}", Alwayss="{0, 8}", MaxTime=16)
cfg("x_w3_times", "W=3, one chain of 9 always-signalling blocks, every timestamp pattern with steps -1/+1/+2,\nstart and timeout menus around the reachable median times.",
    MaxBlocks=9, MaxHeight=9, Ver="Ver1Sig", DtChoices="{0, 2, 3}", DtBase=1, Starts="{1, 3}", Timeouts="{0, 3, 5}", Thrs="{0, 3}", MaxTime=18)
cfg("x_w4_linear", "W=4, threshold 3, one chain of 13 blocks, every vote pattern.",
    W=4, NetThr=3, MaxBlocks=13, MaxHeight=13, Starts="{0, 3}", Timeouts="{0}", MaxTime=16)
cfg("x_k2", "Two deployments (one asked for by block acceptance itself), W=2, NextVer on.",
    W=2, NetThr=2, K=2, Implicit="{1}", Starts="{0, 1}", Timeouts="{0}", MaxHeight=6, MaxBlocks=6, Ver="Ver2Few", NextVerOn="TRUE")

# ---- small recording configurations: state graph dumped, paths replayed ---
cfg("g_w2_small", "Recording; W=2; 16 deployment definitions (start, timeout, minimum activation height, always-active height);\ngraph dumped and its transitions replayed on the real code.",
    W=2, NetThr=2, Starts="{0, 1}", Timeouts="{0, 3}", MinHs="{0, 6}", Alwayss="{0, 3}", MaxHeight=6, MaxBlocks=6,
    Record="TRUE", QueryAll="FALSE", NextVerOn="FALSE", CheckAll="TRUE")
cfg("g_w2_fork", "Recording; W=2; a chain with one side branch from any block (6 blocks in all); graph dumped, paths replayed.",
    W=2, NetThr=2, Starts="{0}", Timeouts="{0}", MaxHeight=6, MaxBlocks=6, MaxLeaves=2,
    Record="TRUE", QueryAll="FALSE", NextVerOn="FALSE", CheckAll="TRUE")
cfg("g_w3_small", "Recording; W=3; one deployment asked for by block acceptance; graph dumped, a covering sample of paths replayed.",
    Implicit="{1}", Starts="{0}", Timeouts="{0, 4}", MinHs="{0, 9}", MaxHeight=9, MaxBlocks=9,
    Record="TRUE", QueryAll="FALSE", NextVerOn="FALSE", CheckAll="TRUE")

# ---- large recording configurations: random simulation ---------------------
# (simulation evaluates the invariants on every candidate successor, which is
# what dominates its cost; the tree invariants are left to the exhaustive runs)
SIMINV = "INVARIANTS QueryIsRef"
cfg("s_w3", "Recording; random simulation; W=3, three deployments, the full menus, forks, any delivery order.", inv=SIMINV,
    K=3, Implicit="{1}", Starts="{0, 1, 2, 3}", Timeouts="{0, 3, 4, 6}", Thrs="{0, 1, 3}", MinHs="{0, 9, 10, 12}", Alwayss="{0, 5, 11}",
    MaxBlocks=18, MaxHeight=13, MaxLeaves=2, MaxTime=40, ForkHeights="{999, 0, 1, 2, 3, 4, 5, 6, 7, 8, 9}",
    Canonical="FALSE", Ver="Ver3Few", DtChoices="{0, 1, 2, 3}", DtBase=1, Record="TRUE", QueryAll="FALSE", NextVerOn="TRUE", CheckAll="FALSE")
cfg("s_w4", "Recording; random simulation; W=4, two deployments both asked for by block acceptance.", inv=SIMINV,
    W=4, NetThr=3, K=2, Implicit="{1, 2}", Starts="{0, 1, 2, 4}", Timeouts="{0, 4, 6, 9}", Thrs="{0, 2, 4}", MinHs="{0, 12, 13}", Alwayss="{0, 6, 14}",
    MaxBlocks=22, MaxHeight=17, MaxLeaves=2, MaxTime=50, ForkHeights="{999, 0, 1, 2, 3, 4, 5, 6, 7, 8, 9, 10, 11, 12}",
    Canonical="FALSE", Ver="Ver2All", DtChoices="{0, 1, 2}", Record="TRUE", QueryAll="FALSE", NextVerOn="TRUE", CheckAll="FALSE")
