\* Recording; random simulation; W=3, three deployments, the full menus, forks, any delivery order.
SPECIFICATION Spec
CONSTANTS
  W = 3
  NetThr = 2
  K = 3
  Starts = {0, 1, 2, 3}
  Timeouts = {0, 3, 4, 6}
  Thrs = {0, 1, 3}
  MinHs = {0, 9, 10, 12}
  Alwayss = {0, 5, 11}
  Implicit = {1}
  MaxBlocks = 18
  MaxHeight = 13
  MaxLeaves = 2
  MaxTime = 40
  ForkHeights = {999, 0, 1, 2, 3, 4, 5, 6, 7, 8, 9}
  Canonical = FALSE
  DtChoices = {0, 1, 2, 3}
  DtBase = 1
  MTPSpan = 11
  QueryAll = FALSE
  NextVerOn = TRUE
  CheckAll = FALSE
  Record = TRUE
  VerChoices <- Ver3Few
INVARIANTS QueryIsRef
