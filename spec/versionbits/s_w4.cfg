\* Recording; random simulation; W=4, two deployments both asked for by block acceptance.
SPECIFICATION Spec
CONSTANTS
  W = 4
  NetThr = 3
  K = 2
  Starts = {0, 1, 2, 4}
  Timeouts = {0, 4, 6, 9}
  Thrs = {0, 2, 4}
  MinHs = {0, 12, 13}
  Alwayss = {0, 6, 14}
  Implicit = {1, 2}
  MaxBlocks = 22
  MaxHeight = 17
  MaxLeaves = 2
  MaxTime = 50
  ForkHeights = {999, 0, 1, 2, 3, 4, 5, 6, 7, 8, 9, 10, 11, 12}
  Canonical = FALSE
  DtChoices = {0, 1, 2}
  DtBase = 0
  MTPSpan = 11
  QueryAll = FALSE
  NextVerOn = TRUE
  CheckAll = FALSE
  Record = TRUE
  VerChoices <- Ver2All
INVARIANTS QueryIsRef
