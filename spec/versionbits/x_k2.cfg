\* Two deployments (one asked for by block acceptance itself), W=2, NextVer on.
SPECIFICATION Spec
CONSTANTS
  W = 2
  NetThr = 2
  K = 2
  Starts = {0, 1}
  Timeouts = {0}
  Thrs = {0}
  MinHs = {0}
  Alwayss = {0}
  Implicit = {1}
  MaxBlocks = 6
  MaxHeight = 6
  MaxLeaves = 1
  MaxTime = 14
  ForkHeights = {1000}
  Canonical = TRUE
  DtChoices = {1}
  DtBase = 0
  MTPSpan = 11
  QueryAll = FALSE
  NextVerOn = TRUE
  CheckAll = FALSE
  Record = FALSE
  VerChoices <- Ver2Few
INVARIANTS TypeOK QueryIsRef CacheSound StateMachine GateFirst NextVersionExact
