\* W=3, a chain with one side branch from any block (<= 9 blocks), every vote pattern.
SPECIFICATION Spec
CONSTANTS
  W = 3
  NetThr = 2
  K = 1
  Starts = {0, 2}
  Timeouts = {0}
  Thrs = {0}
  MinHs = {0}
  Alwayss = {0}
  Implicit = {}
  MaxBlocks = 9
  MaxHeight = 9
  MaxLeaves = 2
  MaxTime = 14
  ForkHeights = {1000}
  Canonical = TRUE
  DtChoices = {1}
  DtBase = 0
  MTPSpan = 11
  QueryAll = FALSE
  NextVerOn = FALSE
  CheckAll = FALSE
  Record = FALSE
  VerChoices <- Ver1SigNone
INVARIANTS TypeOK QueryIsRef CacheSound StateMachine GateFirst NextVersionExact
