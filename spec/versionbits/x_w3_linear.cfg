\* W=3, one chain of 9 blocks, every vote pattern, 4 deployment definitions,
\* every order of queries at the key nodes.
SPECIFICATION Spec
CONSTANTS
  W = 3
  NetThr = 2
  K = 1
  Starts = {0, 2}
  Timeouts = {0, 3}
  Thrs = {0}
  MinHs = {0}
  Alwayss = {0}
  Implicit = {}
  MaxBlocks = 9
  MaxHeight = 9
  MaxLeaves = 1
  MaxTime = 14
  ForkHeights = {1000}
  Canonical = TRUE
  DtChoices = {1}
  DtBase = 0
  MTPSpan = 11
  QueryAll = FALSE
  NextVerOn = FALSE
  CheckAll = FALSE
  Record = FALSE
  VerChoices <- Ver1SigNone
INVARIANTS TypeOK QueryIsRef CacheSound StateMachine GateFirst NextVersionExact
