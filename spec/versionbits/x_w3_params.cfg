\* W=3, one chain of 11 blocks, every vote pattern, the whole parameter menu
\* (custom threshold, minimum activation height, always-active height, timeouts).
SPECIFICATION Spec
CONSTANTS
  W = 3
  NetThr = 2
  K = 1
  Starts = {0, 2}
  Timeouts = {0, 4}
  Thrs = {0, 3}
  MinHs = {0, 10}
  Alwayss = {0, 8}
  Implicit = {}
  MaxBlocks = 11
  MaxHeight = 11
  MaxLeaves = 1
  MaxTime = 16
  ForkHeights = {1000}
  Canonical = TRUE
  DtChoices = {1}
  DtBase = 0
  MTPSpan = 11
  QueryAll = FALSE
  NextVerOn = FALSE
  CheckAll = FALSE
  Record = FALSE
  VerChoices <- Ver1SigNone
INVARIANTS TypeOK QueryIsRef CacheSound StateMachine GateFirst NextVersionExact
