\* W=3, one chain of 9 always-signalling blocks, every timestamp pattern with steps -1/+1/+2,
\* start and timeout menus around the reachable median times.
SPECIFICATION Spec
CONSTANTS
  W = 3
  NetThr = 2
  K = 1
  Starts = {1, 3}
  Timeouts = {0, 3, 5}
  Thrs = {0, 3}
  MinHs = {0}
  Alwayss = {0}
  Implicit = {}
  MaxBlocks = 9
  MaxHeight = 9
  MaxLeaves = 1
  MaxTime = 18
  ForkHeights = {1000}
  Canonical = TRUE
  DtChoices = {0, 2, 3}
  DtBase = 1
  MTPSpan = 11
  QueryAll = FALSE
  NextVerOn = FALSE
  CheckAll = FALSE
  Record = FALSE
  VerChoices <- Ver1Sig
INVARIANTS TypeOK QueryIsRef CacheSound StateMachine GateFirst NextVersionExact
