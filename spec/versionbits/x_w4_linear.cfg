\* W=4, threshold 3, one chain of 13 blocks, every vote pattern.
SPECIFICATION Spec
CONSTANTS
  W = 4
  NetThr = 3
  K = 1
  Starts = {0, 3}
  Timeouts = {0}
  Thrs = {0}
  MinHs = {0}
  Alwayss = {0}
  Implicit = {}
  MaxBlocks = 13
  MaxHeight = 13
  MaxLeaves = 1
  MaxTime = 16
  ForkHeights = {1000}
  Canonical = TRUE
  DtChoices = {1}
  DtBase = 0
  MTPSpan = 11
  QueryAll = FALSE
  NextVerOn = FALSE
  CheckAll = FALSE
  Record = FALSE
  VerChoices <- Ver1SigNone
INVARIANTS TypeOK QueryIsRef CacheSound StateMachine GateFirst NextVersionExact
