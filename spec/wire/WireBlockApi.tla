---------------------------- MODULE WireBlockApi ----------------------------
(***************************************************************************)
(* C08: identifiers and cached bytes of a btcutil.Block do not depend on   *)
(* the order in which its accessors are called.                            *)
(*                                                                         *)
(* Property layer: what every accessor returns is a function of the block  *)
(* alone (table Truth, given as token strings of WireLayout: the binder    *)
(* renders them and takes double SHA-256 where an identifier is asked).    *)
(*                                                                         *)
(* Implementation layer: the caches of btcutil.Block / btcutil.Tx          *)
(*   ser, serNW   serialized block / stripped block cached                 *)
(*   wr[i]        transaction i not wrapped / wrapped without raw bytes /  *)
(*                wrapped with the raw bytes found at offset off[i]        *)
(*   gen          Transactions() ran                                       *)
(*   hc[i]        cached txid of wrapper i: none / ok / bad (hashed from   *)
(*                raw bytes of another position)                           *)
(* with the actions of the API; ImplLaw says that raw bytes always sit at  *)
(* the transaction's true offset, hence no cached identifier is bad.       *)
(* With Fixed = FALSE Transactions() advances its offset only for the      *)
(* transactions it wraps itself (btcd before 92f1d7e5): TLC then finds     *)
(* Bytes, Tx(0), Transactions as a counterexample to ImplLaw.              *)
(*                                                                         *)
(* One state per (constructor, block, call sequence); the binder replays    *)
(* every sequence into a fresh block, compares every return value with     *)
(* Truth and, after the last call, everything the API can show.            *)
(***************************************************************************)
EXTENDS WireLayout, Json

CONSTANTS Tier, Fixed

VARIABLES ctor, blk, calls, ser, serNW, wr, off, gen, hc
vars == <<ctor, blk, calls, ser, serNW, wr, off, gen, hc>>

Run(n, e) == [n |-> n, e |-> e]
In(ss, wit) == [ss |-> ss, wit |-> wit]
Out(pk) == [pk |-> pk]
It(l) == [l |-> l]
Tx(ins, outs) == [ins |-> ins, outs |-> outs]
TxMin == Tx(<<Run(1, In(0, <<>>))>>, <<Run(1, Out(0))>>)
TxLegacy == Tx(<<Run(1, In(107, <<>>)), Run(1, In(0, <<>>))>>, <<Run(1, Out(25)), Run(1, Out(22))>>)
TxSegwit == Tx(<<Run(1, In(0, <<Run(1, It(72)), Run(1, It(33))>>)), Run(1, In(23, <<>>))>>, <<Run(1, Out(34))>>)
TxCoinbase == Tx(<<Run(1, In(4, <<Run(1, It(32))>>))>>, <<Run(1, Out(25)), Run(1, Out(38))>>)

\* blocks of transactions of pairwise different sizes, with and without witness
Blocks == [ b3 |-> <<TxCoinbase, TxLegacy, TxSegwit>>,
            b4 |-> <<TxMin, TxSegwit, TxLegacy, TxCoinbase>> ]
MaxLen(b) == IF b = "b3" THEN 4 ELSE IF Tier = "thorough" THEN 4 ELSE 3
Ctors == {"NewBlock", "NewBlockFromBytes", "NewBlockFromBlockAndBytes"}

N(b) == Len(Blocks[b])
BlockValue(b) == [txs |-> [i \in 1..N(b) |-> Run(1, Blocks[b][i])]]
\* true offset and length of transaction i (1-based) in the full serialization
RECURSIVE TrueOff(_, _)
TrueOff(b, i) == IF i = 1 THEN 80 + ViW(N(b)) ELSE TrueOff(b, i - 1) + TxSize(Blocks[b][i - 1])

Truth(b) ==
    [ name |-> b, n |-> N(b),
      value |-> BlockValue(b),
      full |-> EncBlock(BlockValue(b), "witness"),
      stripped |-> EncBlock(BlockValue(b), "base"),
      header |-> HeaderTokens,
      txs |-> [i \in 1..N(b) |-> [txid |-> TxidTokens(Blocks[b][i]), wtxid |-> WtxidTokens(Blocks[b][i]),
                                  haswit |-> HasWit(Blocks[b][i]),
                                  start |-> TrueOff(b, i), len |-> TxSize(Blocks[b][i])]] ]

\* the alphabet: [op, i] with i the transaction index (0-based as in the API) or -1
Ops(b) == {[op |-> o, i |-> -1] : o \in {"Bytes", "BytesNoWitness", "Transactions", "TxLoc", "Hash"}}
          \cup {[op |-> o, i |-> i] : o \in {"Tx", "TxHash"}, i \in 0..(N(b) - 1)}

\* Transactions(): wrap what is not wrapped yet; raw bytes are taken at the running offset
RECURSIVE Walk(_, _, _, _, _)
Walk(b, i, offset, w, o) ==       \* returns [wr, off]
    IF i > N(b) THEN [wr |-> w, off |-> o]
    ELSE LET size == TxSize(Blocks[b][i])
             fresh == w[i] = "none"
             w2 == IF ~fresh THEN w ELSE [w EXCEPT ![i] = IF ser THEN "raw" ELSE "plain"]
             o2 == IF fresh /\ ser THEN [o EXCEPT ![i] = offset] ELSE o
             adv == IF Fixed THEN TRUE ELSE fresh /\ ser
         IN  Walk(b, i + 1, IF adv THEN offset + size ELSE offset, w2, o2)

InitFor(c, b) ==
    /\ ctor = c /\ blk = b /\ calls = <<>>
    /\ serNW = FALSE
    /\ hc = [i \in 1..N(b) |-> "none"]
    /\ IF c = "NewBlock"
       THEN /\ ser = FALSE /\ gen = FALSE
            /\ wr = [i \in 1..N(b) |-> "none"] /\ off = [i \in 1..N(b) |-> 0]
       ELSE \* the constructors that are given the bytes call Transactions() themselves
            /\ ser = TRUE /\ gen = TRUE
            /\ wr = [i \in 1..N(b) |-> "raw"] /\ off = [i \in 1..N(b) |-> TrueOff(b, i)]
Init == \E c \in Ctors, b \in DOMAIN Blocks : InitFor(c, b)

Call(o) ==
    /\ calls' = Append(calls, o)
    /\ UNCHANGED <<ctor, blk>>
    /\ CASE o.op \in {"Bytes", "TxLoc"} -> ser' = TRUE /\ UNCHANGED <<serNW, wr, off, gen, hc>>
         [] o.op = "BytesNoWitness" -> serNW' = TRUE /\ UNCHANGED <<ser, wr, off, gen, hc>>
         [] o.op = "Hash" -> UNCHANGED <<ser, serNW, wr, off, gen, hc>>
         [] o.op = "Tx" ->
              /\ wr' = IF wr[o.i + 1] = "none" THEN [wr EXCEPT ![o.i + 1] = "plain"] ELSE wr
              /\ UNCHANGED <<ser, serNW, off, gen, hc>>
         [] o.op = "TxHash" ->
              LET i == o.i + 1
                  w2 == IF wr[i] = "none" THEN [wr EXCEPT ![i] = "plain"] ELSE wr
              IN  /\ wr' = w2
                  /\ hc' = IF hc[i] # "none" THEN hc
                           ELSE [hc EXCEPT ![i] = IF w2[i] = "raw" /\ off[i] # TrueOff(blk, i) THEN "bad" ELSE "ok"]
                  /\ UNCHANGED <<ser, serNW, off, gen>>
         [] o.op = "Transactions" ->
              IF gen THEN UNCHANGED <<ser, serNW, wr, off, gen, hc>>
              ELSE LET r == Walk(blk, 1, 80 + ViW(N(blk)), wr, off)
                   IN  /\ wr' = r.wr /\ off' = r.off /\ gen' = TRUE
                       /\ UNCHANGED <<ser, serNW, hc>>

Next == Len(calls) < MaxLen(blk) /\ \E o \in Ops(blk) : Call(o)
Spec == Init /\ [][Next]_vars

\* implementation layer refines the property layer: cached raw bytes are the transaction's own
ImplLaw ==
    \A i \in 1..N(blk) :
        /\ wr[i] = "raw" => off[i] = TrueOff(blk, i)
        /\ hc[i] # "bad"
\* the table itself: offsets tile the serialization, sizes agree with the layout
TruthLaw ==
    calls = <<>> =>
    LET t == Truth(blk) IN
    /\ SeqSize(t.full) = BlockSize(t.value, "witness")
    /\ SeqSize(t.stripped) = BlockSize(t.value, "base")
    /\ t.txs[t.n].start + t.txs[t.n].len = SeqSize(t.full)
    /\ \A i \in 1..t.n : /\ t.txs[i].len = SeqSize(t.txs[i].wtxid)
                         /\ (t.txs[i].txid = t.txs[i].wtxid) <=> ~t.txs[i].haswit

\* not a law: one line per state for the binder (the tables once per block, with the empty sequence
\* of the first constructor)
Emit ==
    /\ PrintT(ToJson(<<"SEQ", ctor, blk, calls>>))
    /\ (calls = <<>> /\ ctor = "NewBlock" => PrintT(ToJson(<<"BLOCK", Truth(blk), Huge>>)))
=============================================================================
