SPECIFICATION Spec
CONSTANTS Tier = "quick"
          Fixed = TRUE
INVARIANTS ImplLaw TruthLaw Emit
