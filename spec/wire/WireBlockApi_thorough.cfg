SPECIFICATION Spec
CONSTANTS Tier = "thorough"
          Fixed = TRUE
INVARIANTS ImplLaw TruthLaw Emit
