\* btcd before 92f1d7e5: TLC must report ImplLaw violated (Bytes, Tx(0), Transactions)
SPECIFICATION Spec
CONSTANTS Tier = "quick"
          Fixed = FALSE
INVARIANTS ImplLaw
