------------------------------ MODULE WireCases ------------------------------
(***************************************************************************)
(* C08: WireLayout evaluated by TLC on enumerated cases.  One state per    *)
(* case.                                                                   *)
(*                                                                         *)
(*   case    [type, pver, enc, api, shape, m]                              *)
(*           api "msg": through the framing functions (WriteMessage... /   *)
(*           ReadMessage...); api "ser": Serialize / Deserialize /          *)
(*           btcutil.New*FromBytes of transactions, blocks and headers      *)
(*   expect  what the layout model says: the token string of the value,    *)
(*           its size, the encoder's and the frame writer's verdict, what   *)
(*           the decoder returns for the encoding and for every structured  *)
(*           mutation of it (truncation at and inside every token,          *)
(*           non-canonical CompactSize at every site, hostile counts and    *)
(*           lengths at every site, trailing bytes, framing faults)         *)
(*                                                                         *)
(* Mutations are handed to the binder on the BYTE level: splice at/del/ins  *)
(* into the rendered encoding, then cut to `cut` bytes (-1: keep all).      *)
(* The invariants are the model-level lemmas (round trip, canonical form,   *)
(* size, prefix-freeness, transaction identifiers, limit-before-body).      *)
(***************************************************************************)
EXTENDS WireLayout, Json

CONSTANTS Tier          \* "quick" or "thorough"

VARIABLES case, expect
vars == <<case, expect>>

Thorough == Tier = "thorough"
SeqSet(s) == {s[i] : i \in 1..Len(s)}
RECURSIVE Flatten(_)
Flatten(ss) == IF ss = <<>> THEN <<>> ELSE Head(ss) \o Flatten(Tail(ss))

-----------------------------------------------------------------------------
(* protocol versions at which a layout or a gate changes, and neighbours *)

AllPvers == <<0, 208, 209, 31401, 31402, 60000, 60001, 60002, 70000, 70001, 70002,
              70010, 70011, 70012, 70013, 70015, 70016, 70017>>
\* types whose layout, gate or payload bound depends on the protocol version
PverTypes == {"version", "addr", "ping", "pong", "mempool", "filterload", "filteradd", "filterclear", "merkleblock",
              "reject", "sendheaders", "feefilter", "sendaddrv2", "wtxidrelay"}
PversOf(type) ==
    IF Thorough THEN (IF type \in PverTypes THEN AllPvers ELSE <<0, 209, 60002, 70001, 70016, 70017>>)
    ELSE CASE type = "version" -> <<31401, 31402, 70000, 70001, 70016>>
           [] type = "addr" -> <<208, 209, 31401, 31402, 70016>>
           [] type \in {"ping", "pong"} -> <<60000, 60001, 70016>>
           [] type = "mempool" -> <<60001, 60002, 70016>>
           [] type \in {"filterload", "filteradd", "filterclear", "merkleblock"} -> <<70000, 70001, 70016>>
           [] type = "reject" -> <<70001, 70002, 70016>>
           [] type = "sendheaders" -> <<70011, 70012, 70016>>
           [] type = "feefilter" -> <<70012, 70013, 70016>>
           [] type \in {"sendaddrv2", "wtxidrelay", "addrv2"} -> <<70015, 70016, 70017>>
           [] OTHER -> <<70016>>
\* the message encoding matters to transactions and blocks only: the quick tier offers the other
\* types under the witness encoding, the thorough tier under both
EncsOf(type, pver) ==
    IF type \in {"tx", "block"} \/ Thorough THEN <<"base", "witness">> ELSE <<"witness">>

-----------------------------------------------------------------------------
(* shapes: the values of each type that are enumerated *)

Run(n, e) == [n |-> n, e |-> e]
Runs(n) == IF n = 0 THEN <<>> ELSE <<Run(n, <<>>)>>
\* count classes of a list with limit lim: empty, one, several, the CompactSize width
\* boundaries below the limit, the limit, one more
CountClasses(lim) == SelectSeq(<<0, 1, 2, 252, 253, 65535, 65536>>, LAMBDA c : c < lim) \o <<lim, lim + 1>>
LenClasses(lim)   == SelectSeq(<<0, 1, 252, 253, 65535, 65536>>, LAMBDA c : c < lim) \o <<lim, lim + 1>>

ListField(type) ==
    CASE type \in {"inv", "getdata", "notfound"} -> "inv"
      [] type \in {"getblocks", "getheaders"} -> "loc"
      [] type = "headers" -> "hdr"
      [] type = "addr" -> "addr"
      [] type \in {"cfheaders", "cfcheckpt"} -> "fh"
ListLimit(type) ==
    CASE type \in {"inv", "getdata", "notfound"} -> MaxInvPerMsg
      [] type \in {"getblocks", "getheaders"} -> MaxBlockLocatorsPerMsg
      [] type = "headers" -> MaxBlockHeadersPerMsg
      [] type = "addr" -> MaxAddrPerMsg
      [] type = "cfheaders" -> MaxCFHeadersPerMsg
      [] type = "cfcheckpt" -> MaxCFCheckptHeaders

Sh(name, m) == [name |-> name, m |-> m]

In(ss, wit) == [ss |-> ss, wit |-> wit]
Out(pk) == [pk |-> pk]
It(l) == [l |-> l]
Tx(ins, outs) == [ins |-> ins, outs |-> outs]
TxMin == Tx(<<Run(1, In(0, <<>>))>>, <<Run(1, Out(0))>>)
TxLegacy == Tx(<<Run(1, In(107, <<>>)), Run(1, In(0, <<>>))>>, <<Run(1, Out(25)), Run(1, Out(22))>>)
TxSegwit == Tx(<<Run(1, In(0, <<Run(1, It(72)), Run(1, It(33))>>)), Run(1, In(23, <<>>))>>, <<Run(1, Out(34))>>)
TxCoinbase == Tx(<<Run(1, In(4, <<Run(1, It(32))>>))>>, <<Run(1, Out(25)), Run(1, Out(38))>>)

QuickTxShapes == {"superfluous-flag", "min", "legacy", "segwit-mixed", "coinbase", "empty-witness-item", "no-outputs", "no-inputs",
                  "no-inputs-no-outputs", "no-inputs-two-outputs", "in-253-witness", "out-253", "wit-items-253",
                  "script-253", "script-65536", "in-65536", "script-max", "script-max+1", "slab-full", "slab-over"}
AllTxShapes ==
    <<Sh("min", TxMin), Sh("legacy", TxLegacy), Sh("segwit-mixed", TxSegwit), Sh("coinbase", TxCoinbase),
      Sh("empty-witness-item", Tx(<<Run(1, In(0, <<Run(1, It(0)), Run(1, It(1))>>))>>, <<Run(1, Out(1))>>)),
      Sh("no-outputs", Tx(<<Run(1, In(1, <<>>))>>, <<>>)),
      \* segwit marker and flag, but every witness stack is empty
      Sh("superfluous-flag", [ins |-> <<Run(2, In(1, <<>>))>>, outs |-> <<Run(1, Out(1))>>, force |-> TRUE]),
      Sh("no-inputs", Tx(<<>>, <<Run(1, Out(1))>>)),
      Sh("no-inputs-no-outputs", Tx(<<>>, <<>>)),
      Sh("no-inputs-two-outputs", Tx(<<>>, <<Run(2, Out(3))>>)),
      Sh("in-252", Tx(<<Run(252, In(1, <<>>))>>, <<Run(1, Out(1))>>)),
      Sh("in-253", Tx(<<Run(253, In(0, <<>>))>>, <<Run(1, Out(1))>>)),
      Sh("in-253-witness", Tx(<<Run(252, In(0, <<Run(2, It(64))>>)), Run(1, In(2, <<>>))>>, <<Run(2, Out(22))>>)),
      Sh("out-252", Tx(<<Run(1, In(1, <<>>))>>, <<Run(252, Out(1))>>)),
      Sh("out-253", Tx(<<Run(1, In(1, <<>>))>>, <<Run(253, Out(0))>>)),
      Sh("wit-items-252", Tx(<<Run(1, In(0, <<Run(252, It(1))>>))>>, <<Run(1, Out(1))>>)),
      Sh("wit-items-253", Tx(<<Run(1, In(0, <<Run(253, It(0))>>))>>, <<Run(1, Out(1))>>)),
      Sh("script-252", Tx(<<Run(1, In(252, <<>>))>>, <<Run(1, Out(252))>>)),
      Sh("script-253", Tx(<<Run(1, In(253, <<Run(1, It(253))>>))>>, <<Run(1, Out(253))>>)),
      Sh("script-65535", Tx(<<Run(1, In(65535, <<>>))>>, <<Run(1, Out(1))>>)),
      Sh("script-65536", Tx(<<Run(1, In(1, <<Run(1, It(65536))>>))>>, <<Run(1, Out(65536))>>)),
      Sh("in-65535", Tx(<<Run(65535, In(0, <<>>))>>, <<Run(1, Out(1))>>)),
      Sh("in-65536", Tx(<<Run(65536, In(0, <<>>))>>, <<Run(1, Out(1))>>)),
      Sh("out-65536", Tx(<<Run(1, In(0, <<>>))>>, <<Run(65536, Out(0))>>)),
      \* one script of the largest size; the buffer shared by all scripts exactly full / one over
      Sh("script-max", Tx(<<Run(1, In(MaxScriptLen, <<>>))>>, <<Run(1, Out(1))>>)),
      Sh("script-max+1", Tx(<<Run(1, In(MaxScriptLen + 1, <<>>))>>, <<Run(1, Out(1))>>)),
      Sh("slab-full", Tx(<<Run(1, In(MaxScriptLen, <<Run(1, It(ScriptSlab - MaxScriptLen - 2))>>))>>, <<Run(2, Out(1))>>)),
      Sh("slab-over", Tx(<<Run(1, In(MaxScriptLen, <<Run(1, It(ScriptSlab - MaxScriptLen - 2))>>))>>, <<Run(1, Out(1)), Run(1, Out(2))>>)),
      Sh("wit-items-65536", Tx(<<Run(1, In(0, <<Run(65536, It(0))>>))>>, <<Run(1, Out(1))>>))>>
    \o (IF Thorough THEN
        <<Sh("in-max", Tx(<<Run(MaxTxInPerMessage, In(0, <<>>))>>, <<>>)),
          Sh("in-max+1", Tx(<<Run(MaxTxInPerMessage + 1, In(0, <<>>))>>, <<>>)),
          Sh("out-max", Tx(<<Run(1, In(0, <<>>))>>, <<Run(MaxTxOutPerMessage, Out(0))>>)),
          Sh("out-max+1", Tx(<<Run(1, In(0, <<>>))>>, <<Run(MaxTxOutPerMessage + 1, Out(0))>>)),
          Sh("wit-items-max", Tx(<<Run(1, In(0, <<Run(MaxWitnessItemsPerInput, It(0))>>))>>, <<Run(1, Out(1))>>)),
          Sh("wit-items-max+1", Tx(<<Run(1, In(0, <<Run(MaxWitnessItemsPerInput + 1, It(0))>>))>>, <<Run(1, Out(1))>>))>>
        ELSE <<>>)

TxShapes == IF Thorough THEN AllTxShapes ELSE SelectSeq(AllTxShapes, LAMBDA sh : sh.name \in QuickTxShapes)

Blk(txs) == [txs |-> txs]
BlockShapes ==
    <<Sh("no-tx", Blk(<<>>)),
      Sh("coinbase-only", Blk(<<Run(1, TxCoinbase)>>)),
      Sh("mixed", Blk(<<Run(1, TxCoinbase), Run(1, TxLegacy), Run(1, TxSegwit)>>)),
      Sh("tx-252", Blk(<<Run(1, TxCoinbase), Run(251, TxMin)>>)),
      Sh("tx-253", Blk(<<Run(1, TxCoinbase), Run(252, TxSegwit)>>)),
      Sh("nested-runs", Blk(<<Run(2, Tx(<<Run(3, In(1, <<Run(2, It(5))>>))>>, <<Run(2, Out(2))>>))>>))>>
    \o (IF Thorough THEN
        <<Sh("tx-65536", Blk(<<Run(65536, TxMin)>>)),
          Sh("tx-max", Blk(<<Run(MaxTxPerBlock, Tx(<<>>, <<>>))>>)),
          Sh("tx-max+1", Blk(<<Run(MaxTxPerBlock + 1, Tx(<<>>, <<>>))>>))>>
        ELSE <<>>)

A2(net, alen, v6, svc) == [svc |-> svc, net |-> net, alen |-> alen, v6 |-> v6,
                           skip |-> ~KnownNet(net) \/ net \in {5, 6} \/ v6 \in {"onioncat", "v4mapped"}]
A2v4 == A2(1, 4, "", 1)
A2v6 == A2(2, 16, "plain", 1033)
A2t2 == A2(3, 10, "", 0)
A2t3 == A2(4, 32, "", 65536)
AV2(addrs) == [addrs |-> addrs]
AddrV2Shapes ==
    <<Sh("none", AV2(<<>>)), Sh("ipv4", AV2(<<Run(1, A2v4)>>)),
      Sh("all-kept", AV2(<<Run(1, A2v4), Run(1, A2v6), Run(1, A2t2), Run(1, A2t3)>>)),
      Sh("services-widths", AV2(<<Run(1, A2(1, 4, "", 252)), Run(1, A2(1, 4, "", 253)), Run(1, A2(1, 4, "", 65535)),
                                  Run(1, A2(1, 4, "", H31)), Run(1, A2(1, 4, "", H32)), Run(1, A2(1, 4, "", HU64))>>)),
      Sh("i2p-cjdns-skipped", AV2(<<Run(1, A2(5, 32, "", 1)), Run(1, A2v4), Run(1, A2(6, 16, "", 1))>>)),
      Sh("unknown-net-skipped", AV2(<<Run(1, A2(7, 0, "", 1)), Run(1, A2(255, 512, "", 1)), Run(1, A2t3), Run(1, A2(0, 5, "", 9))>>)),
      Sh("unknown-net-513", AV2(<<Run(1, A2(9, 513, "", 1))>>)),
      Sh("v6-onioncat-skipped", AV2(<<Run(1, A2(2, 16, "onioncat", 1)), Run(1, A2v6)>>)),
      Sh("v6-v4mapped-skipped", AV2(<<Run(1, A2(2, 16, "v4mapped", 1))>>)),
      Sh("all-skipped", AV2(<<Run(3, A2(5, 32, "", 1))>>)),
      Sh("ipv4-len-16", AV2(<<Run(1, A2(1, 16, "", 1))>>)),
      Sh("ipv6-len-4", AV2(<<Run(1, A2(2, 4, "", 1))>>)),
      Sh("torv2-len-32", AV2(<<Run(1, A2(3, 32, "", 1))>>)),
      Sh("torv3-len-10", AV2(<<Run(1, A2(4, 10, "", 1))>>)),
      Sh("i2p-len-0", AV2(<<Run(1, A2(5, 0, "", 1))>>)),
      Sh("cjdns-len-huge", AV2(<<Run(1, A2(6, HU64, "", 1))>>)),
      Sh("unknown-len-huge", AV2(<<Run(1, A2(200, H32, "", 1))>>)),
      Sh("n-252", AV2(<<Run(252, A2v4)>>)), Sh("n-253", AV2(<<Run(253, A2t3)>>)),
      Sh("n-max", AV2(<<Run(MaxAddrPerMsg, A2v6)>>)), Sh("n-max+1", AV2(<<Run(MaxAddrPerMsg + 1, A2v4)>>)),
      Sh("n-max-skipped", AV2(<<Run(MaxAddrPerMsg, A2(77, 512, "", 1))>>))>>

Ver(stage, ua, relay) == [stage |-> stage, ua |-> ua, relay |-> relay]
VersionShapes ==
    <<Sh("full-relay-1", Ver(5, 15, 1)), Sh("full-relay-0", Ver(5, 15, 0)), Sh("full-relay-2", Ver(5, 0, 2)),
      Sh("full-relay-255", Ver(5, 1, 255)),
      Sh("no-relay", Ver(4, 15, 1)), Sh("no-height", Ver(3, 15, 1)), Sh("no-ua", Ver(2, 0, 1)),
      Sh("no-nonce", Ver(1, 0, 1)), Sh("no-from", Ver(0, 0, 1)),
      Sh("ua-252", Ver(5, 252, 1)), Sh("ua-253", Ver(5, 253, 1)), Sh("ua-256", Ver(5, 256, 1)),
      Sh("ua-257", Ver(5, 257, 1)), Sh("ua-257-short", Ver(3, 257, 1))>>

Rej(cmd, reason) == [cmd |-> cmd, reason |-> reason]
RejectShapes ==
    <<Sh("block", Rej(CmdBlockBytes, 9)), Sh("tx", Rej(CmdTxBytes, 0)),
      Sh("txn", Rej(<<116, 120, 110>>, 3)), Sh("blocks", Rej(CmdBlockBytes \o <<115>>, 1)),
      Sh("empty", Rej(<<>>, 0)), Sh("version", Rej(<<118, 101, 114, 115, 105, 111, 110>>, 252)),
      Sh("reason-253", Rej(CmdTxBytes, 253)), Sh("reason-65536", Rej(<<102>>, 65536)),
      Sh("cmd-253", Rej([i \in 1..253 |-> 120], 1)),
      Sh("reason-fills-message", Rej(CmdBlockBytes, MaxProtocolMessageLength - 6 - 1 - 5 - 32)),
      Sh("reason-over-message", Rej(CmdBlockBytes, MaxProtocolMessageLength - 6 - 1 - 5 - 32 + 1))>>

FL(filter, hf) == [filter |-> filter, hf |-> hf]
FilterLoadShapes ==
    <<Sh("empty", FL(0, 0)), Sh("typical", FL(512, 11)), Sh("hf-50", FL(1, 50)), Sh("hf-51", FL(1, 51)),
      Sh("hf-huge", FL(1, HU32)), Sh("filter-252", FL(252, 1)), Sh("filter-253", FL(253, 1)),
      Sh("filter-max", FL(MaxFilterLoadFilterSize, 50)), Sh("filter-max+1", FL(MaxFilterLoadFilterSize + 1, 1)),
      Sh("both-over", FL(MaxFilterLoadFilterSize + 1, 51))>>

Shapes(type) ==
    CASE type \in {"inv", "getdata", "notfound", "getblocks", "getheaders", "headers", "addr",
                   "cfheaders", "cfcheckpt"} ->
            LET ord == CountClasses(ListLimit(type))
            IN  [i \in 1..Len(ord) |-> Sh("n-" \o ToString(ord[i]), (ListField(type) :> Runs(ord[i])))]
      [] type = "merkleblock" ->
            LET hs == <<0, 1, 252, 253, 65536, 124990>>
                fs == LenClasses(MaxFlagsPerMerkleBlock)
            IN  [i \in 1..Len(hs) |-> Sh("hashes-" \o ToString(hs[i]), ("mh" :> Runs(hs[i])) @@ ("flags" :> 1))]
                \o [i \in 1..Len(fs) |-> Sh("flags-" \o ToString(fs[i]), ("mh" :> Runs(2)) @@ ("flags" :> fs[i]))]
                \o (IF Thorough THEN <<Sh("hashes-max", ("mh" :> Runs(MaxTxPerBlock)) @@ ("flags" :> 0)),
                                       Sh("hashes-max+1", ("mh" :> Runs(MaxTxPerBlock + 1)) @@ ("flags" :> 0))>>
                    ELSE <<>>)
      [] type = "filteradd" ->
            LET ls == LenClasses(MaxFilterAddDataSize)
            IN  [i \in 1..Len(ls) |-> Sh("data-" \o ToString(ls[i]), ("data" :> ls[i]))]
      [] type = "cfilter" ->
            LET ls == LenClasses(MaxCFilterDataSize)
            IN  [i \in 1..Len(ls) |-> Sh("data-" \o ToString(ls[i]), ("data" :> ls[i]))]
      [] type = "version" -> VersionShapes
      [] type = "reject" -> RejectShapes
      [] type = "filterload" -> FilterLoadShapes
      [] type = "addrv2" -> AddrV2Shapes
      [] type = "txout" ->
            LET ls == LenClasses(MaxScriptLen)
            IN  [i \in 1..Len(ls) |-> Sh("pk-" \o ToString(ls[i]), Out(ls[i]))] \o <<Sh("pk-25", Out(25)), Sh("pk-513", Out(513))>>
      [] type = "tx" -> TxShapes
      [] type = "block" -> BlockShapes
      [] OTHER -> <<Sh("plain", <<>>)>>

-----------------------------------------------------------------------------
(* what the model says about one input token string *)

\* through ReadMessageWithEncodingN with a correct header
ViaFrame(c, ts) ==
    LET sz == SeqSize(ts)
        r == ReadFrame(c.type, c.pver, c.enc,
                       [hdr |-> 24, len |-> sz, magic |-> "ok", cmd |-> "ok", sum |-> "ok", avail |-> sz, pay |-> ts])
        d == Dec(c.type, c.pver, c.enc, ts)
    IN  [res |-> r.res, left |-> FALSE, x |-> IF d.res = "ok" THEN d.x ELSE <<>>,
         raw |-> d.res]
\* through Deserialize: bytes after the value are simply not read
ViaSer(c, ts) ==
    LET d == Dec(c.type, c.pver, c.enc, ts)
    IN  [res |-> d.res, left |-> d.res = "ok" /\ More(ts, d), x |-> IF d.res = "ok" THEN d.x ELSE <<>>,
         raw |-> d.res]
Via(c, ts) == IF c.api = "msg" THEN ViaFrame(c, ts) ELSE ViaSer(c, ts)

\* why an accepted input is not the canonical encoding of its value (the leniencies the
\* protocol itself has)
Leniency(type, pver, x) ==
    CASE type = "version" ->
            IF x.stage < 4 \/ (x.stage = 4 /\ pver >= BIP0037Version) THEN "optional-tail"
            ELSE IF x.stage = 5 /\ pver < BIP0037Version THEN "relay-byte-before-bip37"
            ELSE "bool-not-0-or-1"
      [] type = "addrv2" -> "ignored-network"
      [] OTHER -> "none"

\* one decode variant: the byte-level recipe, the model's verdict, and for accepted
\* inputs whether re-encoding reproduces the input
Variant(c, cls, f, at, del, ins, cut, ts, consumed) ==
    LET v == Via(c, ts)
        ok == v.res = "ok"
        re == IF ok THEN ReEnc(c.type, c.pver, c.enc, v.x) ELSE <<>>
        canon == ok /\ re = consumed
    IN  [cls |-> cls, f |-> f, at |-> at, del |-> del, ins |-> ins, cut |-> cut,
         res |-> v.res, raw |-> v.raw, left |-> v.left, canon |-> canon,
         \* trailing bytes that a version message takes for optional fields: whether the
         \* re-encoding equals the input depends on their content
         chk |-> ~(ok /\ cls = "junk" /\ c.type = "version"),
         val |-> IF ok THEN v.x ELSE <<>>,
         reenc |-> IF ok /\ ~canon THEN re ELSE <<>>,
         lenient |-> IF ok /\ ~canon THEN Leniency(c.type, c.pver, v.x) ELSE ""]

TruncVariants(c, toks) ==
    LET ps == Truncs(toks)
    IN  [i \in 1..Len(ps) |-> Variant(c, "trunc", "", 0, 0, <<>>, SeqSize(ps[i]), ps[i], ps[i])]

WiderWidths(t) == SelectSeq(<<3, 5, 9>>, LAMBDA w : w > t.w /\ t.v >= 0)
NonCanonVariants(c, toks) ==
    LET sites == ViSites(toks, <<>>)
        one(s) == LET ws == WiderWidths(s.t)
                      at == SeqSize(s.pre)
                  IN  Flatten([j \in 1..Len(ws) |->
                         LET nt == TViW(s.t.f, s.t.v, ws[j])
                             ts == Append(s.pre, nt)
                         IN  <<Variant(c, "noncanon-cut", s.t.f, at, s.t.w, <<nt>>, at + ws[j], ts, ts),
                               Variant(c, "noncanon-spliced", s.t.f, at, s.t.w, <<nt>>, -1, ts, ts)>>])
    IN  Flatten([i \in 1..Len(sites) |-> one(sites[i])])

\* values a hostile peer can claim at a count / length site with limit lim
\* (claims WITHIN the limit whose elements are missing make the decoder allocate for the claimed
\* count: they are offered in the probe cases only, one shape per type)
HostileValues(t, lim, probe) ==
    IF lim < 0 THEN <<>>                                  \* plain data
    ELSE IF lim = 0 THEN <<1, HU64>>                      \* must be zero
    ELSE SelectSeq(<<lim, lim + 1, 65535, 65536, H31, HU32, H32, H63, HU64>>,
                   LAMBDA v : v < 0 \/ (v > t.v /\ v # 0 /\ (probe \/ v > lim)))
ProbeShape(type) ==
    CASE type = "tx" -> "segwit-mixed"
      [] type = "block" -> "mixed"
      [] type = "txout" -> "pk-25"
      [] type = "version" -> "full-relay-1"
      [] type = "reject" -> "block"
      [] type = "filterload" -> "typical"
      [] type = "addrv2" -> "all-kept"
      [] type = "merkleblock" -> "hashes-1"
      [] type \in {"filteradd", "cfilter"} -> "data-1"
      [] OTHER -> "n-1"
Probe(c) == c.shape = ProbeShape(c.type) /\ c.pver = PversOf(c.type)[Len(PversOf(c.type))]
HostileVariants(c, toks) ==
    LET sites == ViSites(toks, <<>>)
        one(s) == LET vs == HostileValues(s.t, ViLimitT(c.type, s.t.f), Probe(c))
                      at == SeqSize(s.pre)
                  IN  Flatten([j \in 1..Len(vs) |->
                         LET nt == TVi(s.t.f, vs[j])
                             ts == Append(s.pre, nt)
                             over == Over(vs[j], ViLimitT(c.type, s.t.f))
                         IN  <<Variant(c, "hostile-cut", s.t.f, at, s.t.w, <<nt>>, at + nt.w, ts, ts)>>
                             \o (IF over THEN <<Variant(c, "hostile-spliced", s.t.f, at, s.t.w, <<nt>>, -1, ts, ts)>>
                                 ELSE <<>>)])
    IN  Flatten([i \in 1..Len(sites) |-> one(sites[i])])

JunkVariants(c, toks) ==
    LET sz == SeqSize(toks)
        one(bs) == Variant(c, "junk", "", sz, 0, Junk(bs), -1, toks \o Junk(bs), toks)
    IN  <<one(<<0>>), one(<<7>>), one(<<1, 0, 0, 0, 0>>)>>

\* framing faults around the valid payload
Fr(hdr, len, magic, cmd, sum, avail, pay) ==
    [hdr |-> hdr, len |-> len, magic |-> magic, cmd |-> cmd, sum |-> sum, avail |-> avail, pay |-> pay]
FrameVariants(c, toks) ==
    LET sz == SeqSize(toks)
        mx == MaxPayload(c.type, c.pver)
        base == Fr(24, sz, "ok", "ok", "ok", sz, toks)
        fv(name, fr) ==
            LET r == ReadFrame(c.type, c.pver, c.enc, fr)
            IN  [cls |-> "frame", f |-> name, hdr |-> fr.hdr, len |-> fr.len, magic |-> fr.magic, cmd |-> fr.cmd,
                 sum |-> fr.sum, avail |-> fr.avail, res |-> r.res, n |-> r.n,
                 \* the payload is decoded: then fr.pay must be what was read
                 reached |-> /\ fr.hdr = 24 /\ ~Over(fr.len, MaxProtocolMessageLength) /\ fr.magic = "ok"
                             /\ fr.cmd = "ok" /\ fr.len <= mx /\ fr.avail >= fr.len /\ fr.sum = "ok"]
        all ==
        <<fv("valid", base),
          fv("magic", [base EXCEPT !.magic = "bad"]),
          fv("command-unknown", [base EXCEPT !.cmd = "unknown"]),
          fv("command-nul-garbage", [base EXCEPT !.cmd = "nulgarbage"]),
          fv("command-bad-utf8", [base EXCEPT !.cmd = "badutf8"]),
          fv("checksum", [base EXCEPT !.sum = "bad"]),
          fv("length-type-max+1", [base EXCEPT !.len = mx + 1, !.avail = 0]),
          fv("length-type-max", [base EXCEPT !.len = mx, !.avail = 0]),
          fv("length-type-max-body", [base EXCEPT !.len = mx]),
          fv("length-proto-max+1", [base EXCEPT !.len = MaxProtocolMessageLength + 1, !.avail = 0]),
          fv("length-u32-max", [base EXCEPT !.len = HU32, !.avail = 0]),
          fv("length-u32-max-body", [base EXCEPT !.len = HU32]),
          fv("length-2^31", [base EXCEPT !.len = H31, !.avail = 0]),
          \* order of the checks
          fv("magic+length-proto", [base EXCEPT !.magic = "bad", !.len = MaxProtocolMessageLength + 1, !.avail = 0]),
          fv("magic+command-unknown", [base EXCEPT !.magic = "bad", !.cmd = "unknown"]),
          fv("magic+checksum", [base EXCEPT !.magic = "bad", !.sum = "bad"]),
          fv("command-unknown+length-proto", [base EXCEPT !.cmd = "unknown", !.len = MaxProtocolMessageLength + 1, !.avail = 0]),
          fv("command-unknown+length-type", [base EXCEPT !.cmd = "unknown", !.len = mx + 1, !.avail = 0]),
          fv("command-unknown+checksum", [base EXCEPT !.cmd = "unknown", !.sum = "bad"]),
          fv("command-bad-utf8+checksum", [base EXCEPT !.cmd = "badutf8", !.sum = "bad"]),
          fv("length-type-max+1+checksum", [base EXCEPT !.len = mx + 1, !.avail = 0, !.sum = "bad"]),
          fv("checksum+short-body", [base EXCEPT !.sum = "bad", !.avail = IF sz > 0 THEN sz - 1 ELSE 0]),
          \* the stream ends early
          fv("stream-empty", [base EXCEPT !.hdr = 0, !.avail = 0]),
          fv("stream-1", [base EXCEPT !.hdr = 1, !.avail = 0]),
          fv("stream-23", [base EXCEPT !.hdr = 23, !.avail = 0]),
          fv("stream-header-only", [base EXCEPT !.avail = 0]),
          fv("stream-body-1", [base EXCEPT !.avail = IF sz > 0 THEN sz - 1 ELSE 0])>>
    IN  SelectSeq(all, LAMBDA f : f.reached => f.len = sz)

\* can the binder build the value and hand it to the encoder?
Encodable(c) ==
    CASE c.type = "addrv2" -> \A r \in 1..Len(c.m.addrs) : A2Encodable(c.m.addrs[r].e)
      [] c.type = "tx" -> "force" \notin DOMAIN c.m
      [] OTHER -> TRUE

\* v2 (BIP324) plaintexts around the valid one: both forms of the type, heads cut at every
\* boundary length (0, 1, 2, 12, 13, 14 bytes), first bytes that name no message, payloads over
\* the bounds.  pay: "base" the payload of the case, "none", "junk" the bytes junk, "fill" n bytes.
V2Variants(c, toks) ==
    LET sz == SeqSize(toks)
        mx == MaxPayload(c.type, c.pver)
        id == V2IdOf(c.type)
        fv(name, kind, fid, head, cmd, pay, junk, n) ==
            LET ts == CASE pay = "base" -> toks [] pay = "none" -> <<>> [] pay = "junk" -> Junk(junk)
                        [] pay = "fill" -> <<TBytes("fill", n)>>
                ln == IF kind = "long" /\ head < 13 THEN 0 ELSE SeqSize(ts)
                r == ReadV2(c.type, c.pver, c.enc, [kind |-> kind, id |-> fid, head |-> head, cmd |-> cmd, len |-> ln, pay |-> ts])
            IN  [f |-> name, kind |-> kind, id |-> fid, head |-> head, cmd |-> cmd, pay |-> pay, junk |-> junk, n |-> n,
                 res |-> r,
                 \* the head is not the one a sender writes for the command
                 althead |-> kind = "long" /\ id > 0]
        long(name, head, cmd, pay, junk, n) == fv(name, "long", 0, head, cmd, pay, junk, n)
        short(name, fid, pay, junk, n) == fv(name, "short", fid, 1, "ok", pay, junk, n)
        common ==
            <<fv("empty", "empty", 0, 0, "ok", "none", <<>>, 0),
              long("long-form", 13, "ok", "base", <<>>, 0),
              long("long-head-1", 1, "ok", "none", <<>>, 0),
              long("long-head-2", 2, "ok", "none", <<>>, 0),
              long("long-head-12", 12, "ok", "none", <<>>, 0),
              long("long-head-13", 13, "ok", "none", <<>>, 0),
              long("long-head-14", 13, "ok", "junk", <<7>>, 0),
              long("long-unknown", 13, "unknown", "base", <<>>, 0),
              long("long-unknown-head-12", 12, "unknown", "none", <<>>, 0),
              long("long-nul-garbage", 13, "nulgarbage", "base", <<>>, 0),
              long("long-bad-utf8", 13, "badutf8", "base", <<>>, 0),
              long("long-all-zero", 13, "zero", "base", <<>>, 0),
              short("short-blocktxn", 3, "base", <<>>, 0),
              short("short-cmpctblock", 4, "base", <<>>, 0),
              short("short-getblocktxn", 10, "base", <<>>, 0),
              short("short-sendcmpct", 20, "none", <<>>, 0),
              short("short-unassigned-29", 29, "base", <<>>, 0),
              short("short-unassigned-255", 255, "none", <<>>, 0)>>
        own == IF id = 0 THEN <<>>
               ELSE <<short("short-form", id, "base", <<>>, 0),
                      short("short-head-only", id, "none", <<>>, 0),
                      short("short-junk", id, "junk", <<7>>, 0)>>
        big == IF mx + 1 > 70000 THEN <<>>
               ELSE <<long("long-over-type-max", 13, "ok", "fill", <<>>, mx + 1),
                      long("long-unknown-over-type-max", 13, "unknown", "fill", <<>>, mx + 1)>>
                    \o (IF id = 0 THEN <<>> ELSE <<short("short-over-type-max", id, "fill", <<>>, mx + 1)>>)
    IN  common \o own \o big

\* is the value inside the domain on which the encoding must round trip?
\* (lists within their limits; a segwit serialisation needs an input; the scripts of a
\* transaction fit the shared buffer)
RECURSIVE TxInDomain(_, _)
TxInDomain(tx, enc) ==
    /\ RunsLen(tx.ins) <= MaxTxInPerMessage /\ RunsLen(tx.outs) <= MaxTxOutPerMessage
    /\ (enc = "witness" => RunsLen(tx.ins) > 0)
    /\ TxScriptBytes(tx) <= ScriptSlab
    /\ \A r \in 1..Len(tx.ins) :
          /\ tx.ins[r].e.ss <= MaxScriptLen
          /\ RunsLen(tx.ins[r].e.wit) <= MaxWitnessItemsPerInput
          /\ \A k \in 1..Len(tx.ins[r].e.wit) : tx.ins[r].e.wit[k].e.l <= MaxScriptLen
    /\ \A r \in 1..Len(tx.outs) : tx.outs[r].e.pk <= MaxScriptLen
InDomain(c) ==
    /\ EncRes(c.type, c.pver, c.enc, c.m) = "ok"
    /\ Encodable(c)
    /\ CASE c.type = "tx" -> TxInDomain(c.m, c.enc)
         [] c.type = "block" -> /\ RunsLen(c.m.txs) <= MaxTxPerBlock
                                /\ \A r \in 1..Len(c.m.txs) : TxInDomain(c.m.txs[r].e, c.enc)
         [] c.type = "txout" -> c.m.pk <= MaxScriptLen
         [] c.type = "cfcheckpt" -> RunsLen(c.m["fh"]) <= MaxCFCheckptHeaders
         [] c.type = "reject" -> Len(c.m.cmd) <= MaxMessagePayload /\ c.m.reason <= MaxMessagePayload
         [] c.type = "addrv2" -> \A r \in 1..Len(c.m.addrs) : A2Encodable(c.m.addrs[r].e)
         [] c.type = "version" -> c.m.stage >= 4 /\ (c.m.stage = 5 <=> c.pver >= BIP0037Version) /\ c.m.relay \in {0, 1}
         [] OTHER -> TRUE

\* the token string offered to the decoders for the case: the encoding of the value; for the
\* values only a peer can produce (short version messages, foreign addrv2 entries) the
\* layout as received
Input(c) == IF c.type = "version" THEN RawVersion(c.m) ELSE Enc(c.type, c.pver, c.enc, c.m)
Variants(c) ==
    LET toks == Input(c)
    IN  TruncVariants(c, toks) \o NonCanonVariants(c, toks) \o HostileVariants(c, toks)
        \o JunkVariants(c, toks)
Frames(c) == IF c.api = "msg" THEN FrameVariants(c, Input(c)) ELSE <<>>
V2Frames(c) == IF c.api = "msg" THEN V2Variants(c, Input(c)) ELSE <<>>

Expect(c) ==
    LET toks == Input(c)
        etoks == Enc(c.type, c.pver, c.enc, c.m)
        d == Via(c, toks)
    IN  [ tokens |-> toks,
          \* what the encoder writes for the value (differs from tokens only for version)
          enctokens |-> IF etoks = toks THEN <<>> ELSE etoks,
          size |-> IF Encodable(c) THEN Size(c.type, c.pver, c.enc, c.m) ELSE SeqSize(toks),
          encodable |-> Encodable(c),
          encres |-> EncRes(c.type, c.pver, c.enc, c.m),
          write |-> IF c.api = "msg" THEN WriteFrame(c.type, c.pver, c.enc, c.m) ELSE EncRes(c.type, c.pver, c.enc, c.m),
          maxpayload |-> IF c.api = "msg" THEN MaxPayload(c.type, c.pver) ELSE -1,
          \* v2 framing: the head a sender writes for the command (short id or long form)
          v2head |-> IF c.api = "msg" THEN V2Head(c.type) ELSE <<>>,
          indomain |-> InDomain(c),
          probe |-> Probe(c),
          dec |-> d.res,
          \* the decoder of the message type itself, without the frame
          rawdec |-> d.raw,
          back |-> d.x,
          canon |-> d.res = "ok" /\ ReEnc(c.type, c.pver, c.enc, d.x) = toks,
          reenc |-> IF d.res = "ok" /\ ReEnc(c.type, c.pver, c.enc, d.x) # toks THEN ReEnc(c.type, c.pver, c.enc, d.x) ELSE <<>>,
          lenient |-> IF d.res = "ok" /\ ReEnc(c.type, c.pver, c.enc, d.x) # toks THEN Leniency(c.type, c.pver, d.x) ELSE "",
          txid |-> IF c.type = "tx" THEN TxidTokens(c.m) ELSE <<>>,
          \* per transaction of a block: the preimages of its two identifiers
          txruns |-> IF c.type = "block"
                     THEN [r \in 1..Len(c.m.txs) |-> [n |-> c.m.txs[r].n, txid |-> TxidTokens(c.m.txs[r].e),
                                                      wtxid |-> WtxidTokens(c.m.txs[r].e)]]
                     ELSE <<>>,
          haswit |-> IF c.type = "tx" THEN HasWit(c.m) ELSE FALSE,
          stripsize |-> CASE c.type = "tx" -> TxBaseSize(c.m) [] c.type = "block" -> BlockSize(c.m, "base") [] OTHER -> -1,
          fullsize |-> CASE c.type = "tx" -> TxSize(c.m) [] c.type = "block" -> BlockSize(c.m, "witness") [] OTHER -> -1 ]

-----------------------------------------------------------------------------
(* state machine: root -> one group per (type, pver) -> the cases *)

SerTypes == <<"tx", "block", "header", "txout">>

RootExpect ==
    [ huge |-> Huge, allocfactor |-> AllocFactor, maxmessagepayload |-> MaxMessagePayload,
      header |-> FrameHeader, blockheader |-> HeaderTokens,
      types |-> MsgTypes, sertypes |-> SerTypes,
      \* BIP324 short ids: position = id; v2known: the ids whose command this implementation has
      v2ids |-> V2ShortIds, v2long |-> V2LongHead,
      v2known |-> [i \in 1..Len(V2ShortIds) |-> V2ShortIds[i] \in MsgTypes] ]

Init == /\ case = [kind |-> "root"]
        /\ expect = RootExpect

Group ==
    /\ case.kind = "root"
    /\ \/ \E t \in MsgTypes : \E i \in 1..Len(PversOf(t)) :
             case' = [kind |-> "group", api |-> "msg", type |-> t, pver |-> PversOf(t)[i]]
       \/ \E i \in 1..Len(SerTypes) :
             case' = [kind |-> "group", api |-> "ser", type |-> SerTypes[i], pver |-> 0]
    /\ expect' = <<>>

\* Not enumerated: a transaction without inputs and with exactly one output, read with the
\* witness encoding: its input count 00 is taken for the segwit marker and its output count
\* 01 for the flag, and what follows is parsed out of step (BIP144's known ambiguity; the
\* verdict depends on the field contents, which the token level does not have).
\* The shapes at the largest counts (encodings of tens of megabytes) do not depend on the
\* protocol version: they are enumerated at one version.
HeavyShapes == {"in-max", "in-max+1", "out-max", "out-max+1", "wit-items-max", "wit-items-max+1",
                "tx-max", "tx-max+1", "tx-65536", "hashes-max", "hashes-max+1"}
Enumerated(c) ==
    /\ ~(c.type = "tx" /\ c.enc = "witness" /\ RunsLen(c.m.ins) = 0 /\ RunsLen(c.m.outs) = 1)
    /\ (c.shape \in HeavyShapes => c.pver \in {0, 70016})

Pick ==
    /\ case.kind = "group"
    /\ \E i \in 1..Len(Shapes(case.type)) : \E j \in 1..Len(EncsOf(case.type, case.pver)) :
          LET sh == Shapes(case.type)[i]
              c == [kind |-> "case", api |-> case.api, type |-> case.type, pver |-> case.pver,
                    enc |-> EncsOf(case.type, case.pver)[j], shape |-> sh.name, m |-> sh.m]
          IN  /\ Enumerated(c)
              /\ case' = c
              /\ expect' = Expect(c) @@ [variants |-> Variants(c), frames |-> Frames(c), v2 |-> V2Frames(c)]

Next == Group \/ Pick
Spec == Init /\ [][Next]_vars

\* Not a law: prints every state on one line (as JSON) for the binder; TLC evaluates an
\* invariant exactly once per distinct state.
EmitCase == PrintT(ToJson(<<"CASE", case, expect>>))

-----------------------------------------------------------------------------
(* the lemmas *)

IsCase == case.kind = "case"
C == case
Toks == expect.tokens

\* Decode(Encode(m)) = m: the encoding of every value of the domain decodes, consumes
\* every token and gives the value back (the stripped value under the base encoding)
RoundTripLaw ==
    IsCase /\ InDomain(C) =>
        LET d == Dec(C.type, C.pver, C.enc, Enc(C.type, C.pver, C.enc, C.m))
        IN  /\ d.res = "ok"
            /\ d.i = Len(Enc(C.type, C.pver, C.enc, C.m)) + 1
            /\ d.x = Back(C.type, C.enc, C.m)

\* Size(m) = Len(Encode(m)), whether or not the value is in the domain
SizeLaw ==
    IsCase /\ Encodable(C) =>
        /\ expect.size = SeqSize(Enc(C.type, C.pver, C.enc, C.m))
        /\ (C.type = "tx" => /\ expect.stripsize = SeqSize(EncTx(C.m, "base"))
                             /\ expect.fullsize = SeqSize(EncTx(C.m, "witness")))
        /\ (C.type = "block" => /\ expect.stripsize = SeqSize(EncBlock(C.m, "base"))
                                /\ expect.fullsize = SeqSize(EncBlock(C.m, "witness")))

\* Encode(Decode(ts)) = ts for every accepted token string, except for the leniencies of the
\* protocol itself, which the model lists: the optional tail and the boolean of `version`,
\* and the addrv2 entries a receiver must ignore
LenientTypes == {"version", "addrv2"}
CanonicalLaw ==
    IsCase =>
        \A i \in 1..Len(expect.variants) :
            LET v == expect.variants[i] IN
            v.res = "ok" => \/ v.canon
                            \/ C.type \in LenientTypes
\* and the valid encoding itself re-encodes to itself
ReEncodeLaw ==
    IsCase /\ InDomain(C) =>
        LET ts == Enc(C.type, C.pver, C.enc, C.m)
            d == Dec(C.type, C.pver, C.enc, ts)
        IN  ReEnc(C.type, C.pver, C.enc, d.x) = Enc(C.type, C.pver, C.enc, Back(C.type, C.enc, C.m))

\* no proper prefix of an accepted encoding is accepted (version: optional tail), and a
\* prefix is never "malformed": the decoder just runs out of bytes
PrefixLaw ==
    IsCase /\ expect.dec = "ok" =>
        \A i \in 1..Len(expect.variants) :
            LET v == expect.variants[i] IN
            v.cls = "trunc" => \/ v.raw = "short"
                               \/ C.type = "version" /\ v.raw = "ok"
                               \* an empty payload for a message that has none at this version
                               \/ v.raw = "malformed" /\ C.pver < Gate(C.type)

\* a CompactSize written wider than necessary is refused wherever it occurs, whatever follows
NonCanonLaw ==
    IsCase /\ C.pver >= Gate(C.type) =>
        \A i \in 1..Len(expect.variants) :
            LET v == expect.variants[i] IN
            v.cls \in {"noncanon-cut", "noncanon-spliced"} => v.raw = "malformed"

\* a count or length above its limit is refused on the spot (the decision does not depend on
\* the bytes that follow, so nothing was allocated or read for it); one within the limit whose
\* elements are missing runs out of bytes
HostileLaw ==
    IsCase /\ C.pver >= Gate(C.type) =>
        \A i \in 1..Len(expect.variants) :
            LET v == expect.variants[i] IN
            v.cls \in {"hostile-cut", "hostile-spliced"} =>
                LET nv == v.ins[1].v
                    lim == ViLimitT(C.type, v.f)
                IN  IF Over(nv, lim) \/ lim = 0 THEN v.raw = "malformed"
                    ELSE v.raw \in {"short", "malformed"}      \* malformed: the shared script buffer

\* txid ignores the witness tokens, wtxid includes them, equal iff no witness
TxIdLaw ==
    IsCase /\ C.type = "tx" /\ Encodable(C) =>
        /\ TxidTokens(C.m) = EncTx(C.m, "base")
        /\ EncTx(StripTx(C.m), "witness") = EncTx(C.m, "base")
        /\ (TxidTokens(C.m) = WtxidTokens(C.m)) <=> ~HasWit(C.m)
        /\ expect.haswit = HasWit(C.m)

\* every enumerated input is decided by the token-level decoder
AlignedLaw ==
    IsCase =>
        /\ expect.dec # "misaligned"
        /\ \A i \in 1..Len(expect.variants) : expect.variants[i].raw # "misaligned"

\* framing: a message is delivered only when every check of the pipeline passes
FrameLaw ==
    IsCase /\ C.api = "msg" =>
        \A i \in 1..Len(expect.frames) :
            LET f == expect.frames[i] IN
            /\ f.res = "ok" => /\ f.hdr = 24 /\ f.magic = "ok" /\ f.cmd = "ok" /\ f.sum = "ok"
                               /\ ~Over(f.len, MaxPayload(C.type, C.pver)) /\ f.avail >= f.len
                               /\ f.n = 24 + f.len
            /\ f.magic = "bad" /\ f.hdr = 24 => f.res = "malformed"
            /\ f.res = "unknown" => f.cmd \in {"unknown", "nulgarbage"} /\ f.magic = "ok"

\* v2 framing.  The table is a bijection between ids and commands; a plaintext is delivered only
\* when its head is complete and names the message, and then exactly when the v1 frame with the
\* same payload is: both transports deliver the same messages.
V2TableLaw ==
    /\ \A i, j \in 1..Len(V2ShortIds) : V2ShortIds[i] = V2ShortIds[j] => i = j
    /\ \A i \in 1..Len(V2ShortIds) : V2IdOf(V2ShortIds[i]) = i /\ V2NameOf(i) = V2ShortIds[i]
    /\ \A t \in MsgTypes : V2IdOf(t) = 0 \/ V2NameOf(V2IdOf(t)) = t
    /\ V2NameOf(0) = "" /\ V2NameOf(29) = "" /\ V2NameOf(255) = ""
V2Law ==
    IsCase /\ C.api = "msg" =>
        \A i \in 1..Len(expect.v2) :
            LET f == expect.v2[i] IN
            /\ f.res # "misaligned"
            /\ f.res = "ok" => /\ f.kind # "empty"
                               /\ (f.kind = "long" => f.head = 13 /\ f.cmd = "ok")
                               /\ (f.kind = "short" => f.id = V2IdOf(C.type) /\ f.id > 0)
            /\ (f.f \in {"long-form", "short-form"} => f.res = expect.dec)
            /\ (f.kind = "long" /\ f.head < 13 => f.res = "malformed")

=============================================================================
