SPECIFICATION Spec
CONSTANT Tier = "thorough"
INVARIANTS RoundTripLaw SizeLaw CanonicalLaw ReEncodeLaw PrefixLaw NonCanonLaw HostileLaw TxIdLaw AlignedLaw FrameLaw V2TableLaw V2Law
           EmitCase
