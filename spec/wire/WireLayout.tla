----------------------------- MODULE WireLayout -----------------------------
(***************************************************************************)
(* C08: the byte layout of the Bitcoin P2P messages, transactions, blocks  *)
(* and headers on the TOKEN level, and the decision structure of the       *)
(* decoders.                                                               *)
(*                                                                         *)
(* A message value is abstract: it records only what the layout depends on *)
(* (list lengths, byte-string lengths, the few bytes a decoder branches    *)
(* on).  Every other field is opaque; its content is chosen by the binder. *)
(*                                                                         *)
(*   Enc*(m)     value -> token string (the layout)                        *)
(*   Dec*(ts)    token string -> accept + value | short | malformed        *)
(*               (a sequential parser written like the real decoders:      *)
(*               read count, CHECK THE LIMIT, then read the elements)      *)
(*   Size*(m)    byte size computed arithmetically from the value          *)
(*   ReadFrame   the pipeline of ReadMessageWithEncodingN                  *)
(*                                                                         *)
(* tokens (records; k is the kind, f the field name the binder uses to     *)
(* pick the content)                                                       *)
(*   int   w [v]    little endian integer of w bytes (v: value fixed here) *)
(*   be    w        big endian integer of w bytes                          *)
(*   bytes n        n opaque bytes (n > 0)                                 *)
(*   const b        the literal bytes b                                    *)
(*   vi    v w      CompactSize integer v written with w bytes; canonical  *)
(*                  iff w = ViW(v)                                         *)
(*   rep   l n body n consecutive elements of list l, each laid out as     *)
(*                  body (run-length notation: contents differ, the shape  *)
(*                  is the same)                                           *)
(*   cut   of have  the first `have` bytes of token `of`; only as the last *)
(*                  token of a truncated input                             *)
(*                                                                         *)
(* Integers of TLC are 32 bit.  Every limit is below 2^31; the few larger  *)
(* numbers a hostile input can claim are the negative sentinels -1..-5     *)
(* (table Huge), which compare greater than every limit.                   *)
(***************************************************************************)
EXTENDS Integers, Sequences, TLC

-----------------------------------------------------------------------------
(* protocol constants *)

ProtocolVersion        == 70016
MultipleAddressVersion == 209
NetAddressTimeVersion  == 31402
BIP0031Version         == 60000
BIP0035Version         == 60002
BIP0037Version         == 70001
RejectVersion          == 70002
BIP0111Version         == 70011
SendHeadersVersion     == 70012
FeeFilterVersion       == 70013
AddrV2Version          == 70016

MaxMessagePayload        == 33554432      \* 32 MiB: general serialisation bound
MaxProtocolMessageLength == 4000000       \* p2p message bound
MaxBlockPayload          == 4000000
MessageHeaderSize        == 24

MaxInvPerMsg            == 50000
MaxAddrPerMsg           == 1000
MaxBlockLocatorsPerMsg  == 500
MaxBlockHeadersPerMsg   == 2000
MaxCFHeadersPerMsg      == 2000
MaxCFCheckptHeaders     == 100000
MaxCFilterDataSize      == 262144
MaxFilterLoadFilterSize == 36000
MaxFilterLoadHashFuncs  == 50
MaxFilterAddDataSize    == 520
MaxUserAgentLen         == 256
MaxAddrV2Size           == 512
\* "more than could possibly fit into a message"
MaxTxInPerMessage       == (MaxMessagePayload \div 41) + 1
MaxTxOutPerMessage      == (MaxMessagePayload \div 9) + 1
MaxTxPerBlock           == (MaxBlockPayload \div 10) + 1
MaxFlagsPerMerkleBlock  == MaxTxPerBlock \div 8
MaxWitnessItemsPerInput == 4000000
MaxScriptLen            == 4000000
\* all scripts and witness items of ONE transaction are read into one buffer
ScriptSlab              == 4194304

\* the decoders may allocate at most this multiple of MaxMessagePayload
AllocFactor == 8

\* numbers >= 2^31 (hex), value -i is Huge[i]
Huge  == <<"80000000", "ffffffff", "100000000", "7fffffffffffffff", "ffffffffffffffff">>
HugeW == <<5, 5, 9, 9, 9>>
H31 == -1
HU32 == -2
H32 == -3
H63 == -4
HU64 == -5

\* canonical CompactSize width
ViW(v) == IF v < 0 THEN HugeW[-v]
          ELSE IF v < 253 THEN 1 ELSE IF v <= 65535 THEN 3 ELSE 5
Over(v, lim) == v < 0 \/ v > lim

-----------------------------------------------------------------------------
(* tokens *)

TInt(f, w)       == [k |-> "int", f |-> f, w |-> w]
TIntV(f, w, v)   == [k |-> "int", f |-> f, w |-> w, v |-> v]
TBe(f, w)        == [k |-> "be", f |-> f, w |-> w]
TBytes(f, n)     == [k |-> "bytes", f |-> f, n |-> n]
TConst(f, b)     == [k |-> "const", f |-> f, b |-> b]
TVi(f, v)        == [k |-> "vi", f |-> f, v |-> v, w |-> ViW(v)]
TViW(f, v, w)    == [k |-> "vi", f |-> f, v |-> v, w |-> w]
TRep(l, n, body) == [k |-> "rep", l |-> l, n |-> n, body |-> body]
TCut(t, have)    == [k |-> "cut", of |-> t, have |-> have]
\* n elements of list l are left out here (the elements after them keep their numbering)
TSkip(l, n)      == [k |-> "skip", l |-> l, n |-> n]
Bytes(f, n)      == IF n = 0 THEN <<>> ELSE <<TBytes(f, n)>>
Zeros(n)         == [i \in 1..n |-> 0]
Junk(bs)         == [i \in 1..Len(bs) |-> TConst("junk", <<bs[i]>>)]

RECURSIVE TokSize(_), SeqSize(_)
TokSize(t) == CASE t.k \in {"int", "be", "vi"} -> t.w
                [] t.k = "bytes" -> t.n
                [] t.k = "const" -> Len(t.b)
                [] t.k = "rep"   -> t.n * SeqSize(t.body)
                [] t.k = "cut"   -> t.have
                [] t.k = "skip"  -> 0
SeqSize(ts) == IF ts = <<>> THEN 0 ELSE TokSize(Head(ts)) + SeqSize(Tail(ts))

RECURSIVE SumSeq(_)
SumSeq(s) == IF s = <<>> THEN 0 ELSE Head(s) + SumSeq(Tail(s))

\* lists are sequences of runs [n, e]: n consecutive elements of shape e
RunsLen(runs) == SumSeq([r \in 1..Len(runs) |-> runs[r].n])

-----------------------------------------------------------------------------
(* grammar of the plain messages: a sequence of items                       *)
(*   int/be/bytes   opaque fixed field                                      *)
(*   zero           a CompactSize that must be 0                            *)
(*   var            CompactSize length (<= max, checked BEFORE the bytes    *)
(*                  are allocated and read) + that many bytes               *)
(*   list           CompactSize count (<= max, checked BEFORE the element   *)
(*                  array is allocated) + count elements of layout body;    *)
(*                  enc: the encoder refuses a longer list                  *)
(* The value of such a message maps the name of every var item to its      *)
(* length and of every list item to its runs (elements are opaque: <<>>).  *)

GI(f, w)    == [g |-> "int", f |-> f, w |-> w]
GBe(f, w)   == [g |-> "be", f |-> f, w |-> w]
GB(f, n)    == [g |-> "bytes", f |-> f, n |-> n]
GZ(f)       == [g |-> "zero", f |-> f]
GV(f, cf, max) == [g |-> "var", f |-> f, cf |-> cf, max |-> max]
GL(f, cf, max, enc, body) == [g |-> "list", f |-> f, cf |-> cf, max |-> max, enc |-> enc, body |-> body]

HeaderItems == <<GI("h.version", 4), GB("h.prev", 32), GB("h.merkle", 32),
                 GI("h.time", 4), GI("h.bits", 4), GI("h.nonce", 4)>>
InvBody     == <<GI("inv.type", 4), GB("inv.hash", 32)>>
NetAddrBody(pver) ==
    (IF pver >= NetAddressTimeVersion THEN <<GI("addr.time", 4)>> ELSE <<>>)
    \o <<GI("addr.services", 8), GB("addr.ip", 16), GBe("addr.port", 2)>>

EmptyTypes   == {"verack", "getaddr", "mempool", "filterclear", "sendheaders", "sendaddrv2", "wtxidrelay"}
GrammarTypes == EmptyTypes \cup
                {"inv", "getdata", "notfound", "getblocks", "getheaders", "headers", "addr",
                 "cfheaders", "cfcheckpt", "merkleblock", "filteradd", "cfilter", "ping", "pong",
                 "feefilter", "getcfilters", "getcfheaders", "getcfcheckpt", "header"}
SpecialTypes == {"version", "reject", "filterload", "addrv2", "tx", "block"}
MsgTypes     == (GrammarTypes \ {"header"}) \cup SpecialTypes

Grammar(type, pver) ==
    CASE type \in {"inv", "getdata", "notfound"} ->
            <<GL("inv", "inv.count", MaxInvPerMsg, TRUE, InvBody)>>
      [] type \in {"getblocks", "getheaders"} ->
            <<GI("pver", 4), GL("loc", "loc.count", MaxBlockLocatorsPerMsg, TRUE, <<GB("loc.hash", 32)>>),
              GB("stop", 32)>>
      [] type = "headers" ->
            <<GL("hdr", "hdr.count", MaxBlockHeadersPerMsg, TRUE, HeaderItems \o <<GZ("h.txcount")>>)>>
      [] type = "addr" ->
            <<GL("addr", "addr.count", MaxAddrPerMsg, TRUE, NetAddrBody(pver))>>
      [] type = "cfheaders" ->
            <<GI("ftype", 1), GB("stop", 32), GB("prev", 32),
              GL("fh", "fh.count", MaxCFHeadersPerMsg, TRUE, <<GB("fh.hash", 32)>>)>>
      [] type = "cfcheckpt" ->
            <<GI("ftype", 1), GB("stop", 32),
              GL("fh", "fh.count", MaxCFCheckptHeaders, FALSE, <<GB("fh.hash", 32)>>)>>
      [] type = "merkleblock" ->
            HeaderItems \o <<GI("txs", 4),
              GL("mh", "mh.count", MaxTxPerBlock, TRUE, <<GB("mh.hash", 32)>>),
              GV("flags", "flags.len", MaxFlagsPerMerkleBlock)>>
      [] type = "filteradd" -> <<GV("data", "data.len", MaxFilterAddDataSize)>>
      [] type = "cfilter"   -> <<GI("ftype", 1), GB("block", 32), GV("data", "data.len", MaxCFilterDataSize)>>
      [] type = "ping"      -> IF pver > BIP0031Version THEN <<GI("nonce", 8)>> ELSE <<>>
      [] type = "pong"      -> <<GI("nonce", 8)>>
      [] type = "feefilter" -> <<GI("minfee", 8)>>
      [] type \in {"getcfilters", "getcfheaders"} -> <<GI("ftype", 1), GI("start", 4), GB("stop", 32)>>
      [] type = "getcfcheckpt" -> <<GI("ftype", 1), GB("stop", 32)>>
      [] type = "header"    -> HeaderItems
      [] type \in EmptyTypes -> <<>>

\* the message does not exist below this protocol version: encoder and decoder refuse
Gate(type) ==
    CASE type = "pong" -> BIP0031Version + 1
      [] type = "mempool" -> BIP0035Version
      [] type \in {"filterload", "filteradd", "filterclear", "merkleblock"} -> BIP0037Version
      [] type = "reject" -> RejectVersion
      [] type = "sendheaders" -> SendHeadersVersion
      [] type = "feefilter" -> FeeFilterVersion
      [] type \in {"sendaddrv2", "wtxidrelay"} -> AddrV2Version
      [] OTHER -> 0

\* a pre-209 peer sends one address per message
ListEncMax(type, pver, it) ==
    IF type = "addr" /\ pver < MultipleAddressVersion THEN 1 ELSE it.max

MaxNetAddressPayload(pver) == IF pver >= NetAddressTimeVersion THEN 30 ELSE 26
MaxNetAddressV2Payload == 4 + 9 + 1 + 515 + 2

\* largest payload a message of the type may announce in its header
MaxPayload(type, pver) ==
    CASE type = "version" -> 33 + 2 * MaxNetAddressPayload(pver) + 9 + MaxUserAgentLen
      [] type \in EmptyTypes -> 0
      [] type = "addr" -> IF pver < MultipleAddressVersion THEN 9 + MaxNetAddressPayload(pver)
                          ELSE 9 + MaxAddrPerMsg * MaxNetAddressPayload(pver)
      [] type = "addrv2" -> 3 + MaxAddrPerMsg * MaxNetAddressV2Payload
      [] type \in {"inv", "getdata", "notfound"} -> 9 + MaxInvPerMsg * 36
      [] type \in {"getblocks", "getheaders"} -> 4 + 9 + MaxBlockLocatorsPerMsg * 32 + 32
      [] type = "headers" -> 9 + 81 * MaxBlockHeadersPerMsg
      [] type \in {"block", "tx", "merkleblock"} -> MaxBlockPayload
      [] type \in {"ping", "pong"} -> IF pver > BIP0031Version THEN 8 ELSE 0
      [] type = "reject" -> IF pver >= RejectVersion THEN MaxProtocolMessageLength ELSE 0
      [] type = "filteradd" -> 3 + MaxFilterAddDataSize
      [] type = "filterload" -> 3 + MaxFilterLoadFilterSize + 9
      [] type = "feefilter" -> 8
      [] type \in {"getcfilters", "getcfheaders"} -> 37
      [] type = "getcfcheckpt" -> 33
      [] type = "cfilter" -> 5 + MaxCFilterDataSize + 32 + 1
      [] type = "cfheaders" -> 1 + 32 + 32 + 9 + 32 * MaxCFHeadersPerMsg
      [] type = "cfcheckpt" -> 1 + 32 + 5 + 32 * MaxCFCheckptHeaders

-----------------------------------------------------------------------------
(* encoder of the grammar messages *)

RECURSIVE EncItems(_, _)
EncItems(items, val) ==
    IF items = <<>> THEN <<>>
    ELSE LET it == Head(items) IN
         (CASE it.g = "int"   -> <<TInt(it.f, it.w)>>
            [] it.g = "be"    -> <<TBe(it.f, it.w)>>
            [] it.g = "bytes" -> <<TBytes(it.f, it.n)>>
            [] it.g = "zero"  -> <<TVi(it.f, 0)>>
            [] it.g = "var"   -> <<TVi(it.cf, val[it.f])>> \o Bytes(it.f, val[it.f])
            [] it.g = "list"  ->
                 <<TVi(it.cf, RunsLen(val[it.f]))>>
                 \o [r \in 1..Len(val[it.f]) |-> TRep(it.f, val[it.f][r].n, EncItems(it.body, <<>>))])
         \o EncItems(Tail(items), val)

\* the encoder's own verdict: lists and byte strings over their limit are refused
RECURSIVE EncItemsOK(_, _, _, _)
EncItemsOK(type, pver, items, val) ==
    \/ items = <<>>
    \/ LET it == Head(items) IN
       /\ (it.g = "var" => val[it.f] <= it.max)
       /\ (it.g = "list" /\ it.enc => RunsLen(val[it.f]) <= ListEncMax(type, pver, it))
       /\ EncItemsOK(type, pver, Tail(items), val)

RECURSIVE SizeItems(_, _)
SizeItems(items, val) ==
    IF items = <<>> THEN 0
    ELSE LET it == Head(items) IN
         (CASE it.g \in {"int", "be"} -> it.w
            [] it.g = "bytes" -> it.n
            [] it.g = "zero"  -> 1
            [] it.g = "var"   -> ViW(val[it.f]) + val[it.f]
            [] it.g = "list"  -> ViW(RunsLen(val[it.f])) + RunsLen(val[it.f]) * SizeItems(it.body, <<>>))
         + SizeItems(Tail(items), val)

-----------------------------------------------------------------------------
(* decoder state: i next token, res verdict so far, x the last value read, *)
(* slab the bytes of the per-transaction script buffer already used        *)

St0 == [i |-> 1, res |-> "ok", x |-> 0, slab |-> 0]
Fail(st, r) == [st EXCEPT !.res = r]
More(ts, st) == st.i <= Len(ts)                  \* bytes remain
Opaque == -1000

\* the value of a one-byte token when the layout fixes it
ByteVal(t) == CASE t.k = "const" /\ Len(t.b) = 1 -> t.b[1]
                [] t.k = "vi" /\ t.w = 1 -> t.v
                [] t.k = "vi" -> 252 + (t.w + 1) \div 2       \* the discriminant 0xfd/0xfe/0xff
                [] t.k = "int" /\ "v" \in DOMAIN t /\ t.w = 1 -> t.v
                [] OTHER -> Opaque

\* read a field of w bytes
RdRaw(ts, st, w) ==
    IF st.res # "ok" \/ w = 0 THEN st
    ELSE IF ~More(ts, st) THEN Fail(st, "short")
    ELSE LET t == ts[st.i] IN
         IF t.k = "cut" THEN Fail(st, "short")
         \* trailing bytes (one token per byte, always last) are read like any others
         ELSE IF t.k = "const" /\ t.f = "junk"
              THEN (IF Len(ts) - st.i + 1 < w THEN Fail(st, "short")
                    ELSE [st EXCEPT !.i = @ + w, !.x = IF w = 1 THEN t.b[1] ELSE Opaque])
         ELSE IF t.k # "rep" /\ TokSize(t) = w
              THEN [st EXCEPT !.i = @ + 1,
                              !.x = IF "v" \in DOMAIN t /\ t.k = "int" THEN t.v ELSE ByteVal(t)]
         ELSE Fail(st, "misaligned")

\* read one byte whatever token it starts (the segwit flag)
RdFirstByte(ts, st) ==
    IF st.res # "ok" THEN st
    ELSE IF ~More(ts, st) THEN Fail(st, "short")
    ELSE LET t == ts[st.i] IN
         IF t.k = "cut" THEN Fail(st, "short")
         ELSE IF t.k = "rep" \/ ByteVal(t) = Opaque THEN Fail(st, "misaligned")
         ELSE IF TokSize(t) = 1 THEN [st EXCEPT !.i = @ + 1, !.x = ByteVal(t)]
         ELSE [st EXCEPT !.x = ByteVal(t)]     \* the caller stops on this value

\* read a CompactSize: a non-canonical encoding is refused
RdVi(ts, st) ==
    IF st.res # "ok" THEN st
    ELSE IF ~More(ts, st) THEN Fail(st, "short")
    ELSE LET t == ts[st.i] IN
         IF t.k = "cut" THEN Fail(st, "short")
         ELSE IF t.k = "vi" THEN (IF t.w # ViW(t.v) THEN Fail(st, "malformed")
                                  ELSE [st EXCEPT !.i = @ + 1, !.x = t.v])
         ELSE IF t.k = "const" /\ Len(t.b) = 1 /\ t.b[1] < 253 THEN [st EXCEPT !.i = @ + 1, !.x = t.b[1]]
         ELSE Fail(st, "misaligned")

Limit(st, lim) == IF st.res = "ok" /\ Over(st.x, lim) THEN Fail(st, "malformed") ELSE st

\* CompactSize length checked against max, then the bytes; x = length
RdVar(ts, st, max) ==
    LET s1 == Limit(RdVi(ts, st), max)
        s2 == IF s1.res = "ok" THEN RdRaw(ts, s1, s1.x) ELSE s1
    IN  IF s2.res = "ok" THEN [s2 EXCEPT !.x = s1.x] ELSE s2

\* one script / witness item of a transaction
RdScript(ts, st) ==
    LET s1 == Limit(RdVi(ts, st), MaxScriptLen)
        s2 == IF s1.res = "ok" /\ s1.slab + s1.x > ScriptSlab THEN Fail(s1, "malformed") ELSE s1
        s3 == IF s2.res = "ok" THEN RdRaw(ts, s2, s2.x) ELSE s2
    IN  IF s3.res = "ok" THEN [s3 EXCEPT !.x = s1.x, !.slab = @ + s1.x] ELSE s3

\* addrv2 network table
NetLen == <<4, 16, 10, 32, 32, 16>>          \* ipv4 ipv6 torv2 torv3 i2p cjdns
KnownNet(id) == id \in 1..6
\* ipv6 content classes that BIP155 forbids inside addrv2
OnionCatPrefix == <<253, 135, 216, 126, 235, 67>>
V4MappedPrefix == <<0, 0, 0, 0, 0, 0, 0, 0, 0, 0, 255, 255>>
PlainV6Prefix  == <<32, 1>>

\* element kinds of RdList
KItems(l, items) == [k |-> "items", l |-> l, items |-> items]
KTxIn   == [k |-> "txin", l |-> "in"]
KTxOut  == [k |-> "txout", l |-> "out"]
KWStack == [k |-> "wstack", l |-> "w"]
KWItem  == [k |-> "witem", l |-> "wi"]
KTx(enc) == [k |-> "tx", l |-> "tx", enc |-> enc]
KAddrV2 == [k |-> "addrv2", l |-> "a2"]

RECURSIVE RdItems(_, _, _, _), RdList(_, _, _, _, _), Elem(_, _, _), DecTx(_, _, _)

\* need elements of the kind follow; x = their runs
RdList(ts, st, need, kind, acc) ==
    IF st.res # "ok" THEN st
    ELSE IF need = 0 THEN [st EXCEPT !.x = acc]
    ELSE IF More(ts, st) /\ ts[st.i].k = "rep" THEN
        LET t == ts[st.i]
            e == Elem(kind, t.body, [st EXCEPT !.i = 1])
            use == e.slab - st.slab
        IN  IF t.l # kind.l \/ t.n > need THEN Fail(st, "misaligned")
            ELSE IF e.res # "ok" THEN [st EXCEPT !.res = e.res]
            ELSE IF e.i # Len(t.body) + 1 THEN Fail(st, "misaligned")
            ELSE IF kind.k # "tx" /\ st.slab + t.n * use > ScriptSlab THEN Fail(st, "malformed")
            ELSE RdList(ts, [st EXCEPT !.i = @ + 1, !.slab = IF kind.k = "tx" THEN @ ELSE @ + t.n * use],
                        need - t.n, kind, Append(acc, [n |-> t.n, e |-> e.x]))
    ELSE \* an element written out token by token: only the last, incomplete one of a truncated input
        LET e == Elem(kind, ts, st)
        IN  IF e.res # "ok" THEN e ELSE Fail(e, "misaligned")

RdItems(items, ts, st, val) ==
    IF st.res # "ok" THEN st
    ELSE IF items = <<>> THEN [st EXCEPT !.x = val]
    ELSE LET it == Head(items) IN
         CASE it.g \in {"int", "be"} -> RdItems(Tail(items), ts, RdRaw(ts, st, it.w), val)
           [] it.g = "bytes" -> RdItems(Tail(items), ts, RdRaw(ts, st, it.n), val)
           [] it.g = "zero" ->
                LET s1 == RdVi(ts, st)
                IN  RdItems(Tail(items), ts, IF s1.res = "ok" /\ s1.x # 0 THEN Fail(s1, "malformed") ELSE s1, val)
           [] it.g = "var" ->
                LET s1 == RdVar(ts, st, it.max)
                IN  RdItems(Tail(items), ts, s1, val @@ (it.f :> s1.x))
           [] it.g = "list" ->
                LET s1 == Limit(RdVi(ts, st), it.max)
                    s2 == IF s1.res = "ok" THEN RdList(ts, s1, s1.x, KItems(it.f, it.body), <<>>) ELSE s1
                IN  RdItems(Tail(items), ts, s2, val @@ (it.f :> s2.x))

Elem(kind, ts, st) ==
    CASE kind.k = "items" -> RdItems(kind.items, ts, st, <<>>)
      [] kind.k = "txin" ->
            LET s1 == RdRaw(ts, RdRaw(ts, st, 32), 4)
                s2 == RdScript(ts, s1)
                s3 == RdRaw(ts, s2, 4)
            IN  IF s3.res = "ok" THEN [s3 EXCEPT !.x = [ss |-> s2.x]] ELSE s3
      [] kind.k = "txout" ->
            LET s1 == RdScript(ts, RdRaw(ts, st, 8))
            IN  IF s1.res = "ok" THEN [s1 EXCEPT !.x = [pk |-> s1.x]] ELSE s1
      [] kind.k = "witem" ->
            LET s1 == RdScript(ts, st)
            IN  IF s1.res = "ok" THEN [s1 EXCEPT !.x = [l |-> s1.x]] ELSE s1
      [] kind.k = "wstack" ->
            LET s1 == Limit(RdVi(ts, st), MaxWitnessItemsPerInput)
                s2 == IF s1.res = "ok" THEN RdList(ts, s1, s1.x, KWItem, <<>>) ELSE s1
            IN  IF s2.res = "ok" THEN [s2 EXCEPT !.x = [wit |-> s2.x]] ELSE s2
      [] kind.k = "tx" ->
            LET s1 == DecTx(ts, [st EXCEPT !.slab = 0], kind.enc)
            IN  [s1 EXCEPT !.slab = st.slab]
      [] kind.k = "addrv2" ->
            LET s1 == RdVi(ts, RdRaw(ts, st, 4))                    \* time, services
                svc == s1.x
                s2 == RdRaw(ts, s1, 1)                              \* network id
                id == s2.x
                s3 == RdVi(ts, s2)                                  \* address length
                alen == s3.x
            IN  IF s3.res # "ok" THEN s3
                ELSE IF id = Opaque THEN Fail(s3, "misaligned")
                ELSE IF ~KnownNet(id) THEN
                    \* unknown network: skipped, but never more than 512 bytes
                    IF Over(alen, MaxAddrV2Size) THEN Fail(s3, "malformed")
                    ELSE LET s4 == RdRaw(ts, RdRaw(ts, s3, alen), 2)
                         IN  IF s4.res = "ok" THEN [s4 EXCEPT !.x = [svc |-> svc, net |-> id, alen |-> alen, v6 |-> "", skip |-> TRUE]] ELSE s4
                ELSE IF alen # NetLen[id] THEN Fail(s3, "malformed")
                ELSE \* the address may be laid out as prefix + rest (ipv6 content classes)
                    LET pfx == IF More(ts, s3) /\ ts[s3.i].k = "const" /\ ts[s3.i].f = "a2.pfx" THEN ts[s3.i].b ELSE <<>>
                        s4 == IF pfx = <<>> THEN RdRaw(ts, s3, alen)
                              ELSE RdRaw(ts, RdRaw(ts, s3, Len(pfx)), alen - Len(pfx))
                        s5 == RdRaw(ts, s4, 2)
                        v6 == IF id # 2 THEN "" ELSE IF pfx = OnionCatPrefix THEN "onioncat"
                              ELSE IF pfx = V4MappedPrefix THEN "v4mapped" ELSE "plain"
                    IN  IF s5.res = "ok"
                        THEN [s5 EXCEPT !.x = [svc |-> svc, net |-> id, alen |-> alen, v6 |-> v6,
                                               skip |-> id \in {5, 6} \/ v6 \in {"onioncat", "v4mapped"}]]
                        ELSE s5

-----------------------------------------------------------------------------
(* transactions                                                             *)
(* value [ins: runs of [ss, wit: runs of [l]], outs: runs of [pk]]          *)

HasWit(tx) == \E r \in 1..Len(tx.ins) : RunsLen(tx.ins[r].e.wit) > 0
StripTx(tx) == [ins |-> [r \in 1..Len(tx.ins) |-> [n |-> tx.ins[r].n, e |-> [ss |-> tx.ins[r].e.ss, wit |-> <<>>]]],
                outs |-> tx.outs]

InBody(e)  == <<TBytes("in.hash", 32), TInt("in.index", 4), TVi("in.sslen", e.ss)>> \o Bytes("in.ss", e.ss)
              \o <<TInt("in.seq", 4)>>
OutBody(e) == <<TInt("out.value", 8), TVi("out.pklen", e.pk)>> \o Bytes("out.pk", e.pk)
WBody(e)   == <<TVi("w.count", RunsLen(e.wit))>>
              \o [k \in 1..Len(e.wit) |->
                     TRep("wi", e.wit[k].n, <<TVi("wi.len", e.wit[k].e.l)>> \o Bytes("wi.data", e.wit[k].e.l))]

\* (a value with the field `force` stands for an input no encoder writes: the segwit marker, flag
\* and witness section although no input has a witness)
EncTx(tx, enc) ==
    LET dw == enc = "witness" /\ (HasWit(tx) \/ "force" \in DOMAIN tx) IN
    <<TInt("version", 4)>>
    \o (IF dw THEN <<TConst("marker", <<0>>), TConst("flag", <<1>>)>> ELSE <<>>)
    \o <<TVi("in.count", RunsLen(tx.ins))>>
    \o [r \in 1..Len(tx.ins) |-> TRep("in", tx.ins[r].n, InBody(tx.ins[r].e))]
    \o <<TVi("out.count", RunsLen(tx.outs))>>
    \o [r \in 1..Len(tx.outs) |-> TRep("out", tx.outs[r].n, OutBody(tx.outs[r].e))]
    \o (IF dw THEN [r \in 1..Len(tx.ins) |-> TRep("w", tx.ins[r].n, WBody(tx.ins[r].e))] ELSE <<>>)
    \o <<TInt("locktime", 4)>>

\* tokens that exist only because of segregated witness
IsWitTok(t) == (t.k = "const" /\ t.f \in {"marker", "flag"}) \/ (t.k = "rep" /\ t.l = "w")
TxidTokens(tx)  == SelectSeq(EncTx(tx, "witness"), LAMBDA t : ~IsWitTok(t))
WtxidTokens(tx) == EncTx(tx, "witness")

InSize(e)  == 40 + ViW(e.ss) + e.ss
OutSize(e) == 8 + ViW(e.pk) + e.pk
WitSize(e) == ViW(RunsLen(e.wit)) + SumSeq([k \in 1..Len(e.wit) |-> e.wit[k].n * (ViW(e.wit[k].e.l) + e.wit[k].e.l)])
TxBaseSize(tx) == 8 + ViW(RunsLen(tx.ins)) + ViW(RunsLen(tx.outs))
                  + SumSeq([r \in 1..Len(tx.ins) |-> tx.ins[r].n * InSize(tx.ins[r].e)])
                  + SumSeq([r \in 1..Len(tx.outs) |-> tx.outs[r].n * OutSize(tx.outs[r].e)])
TxSize(tx) == TxBaseSize(tx)
              + (IF HasWit(tx) THEN 2 + SumSeq([r \in 1..Len(tx.ins) |-> tx.ins[r].n * WitSize(tx.ins[r].e)]) ELSE 0)
TxSizeEnc(tx, enc) == IF enc = "witness" THEN TxSize(tx) ELSE TxBaseSize(tx)
\* total bytes of scripts and witness items: they share one buffer while decoding
TxScriptBytes(tx) ==
    SumSeq([r \in 1..Len(tx.ins) |-> tx.ins[r].n *
               (tx.ins[r].e.ss + SumSeq([k \in 1..Len(tx.ins[r].e.wit) |-> tx.ins[r].e.wit[k].n * tx.ins[r].e.wit[k].e.l]))])
    + SumSeq([r \in 1..Len(tx.outs) |-> tx.outs[r].n * tx.outs[r].e.pk])

DecTx(ts, st0, enc) ==
    LET s1 == RdVi(ts, RdRaw(ts, st0, 4))                       \* version; input count or marker
        marker == s1.res = "ok" /\ s1.x = 0 /\ enc = "witness"
        s2 == IF marker THEN RdFirstByte(ts, s1) ELSE s1        \* flag
        s3 == IF marker /\ s2.res = "ok" /\ s2.x # 1 THEN Fail(s2, "malformed") ELSE s2
        s4 == Limit(IF marker THEN RdVi(ts, s3) ELSE s3, MaxTxInPerMessage)
        nin == s4.x
        s5 == IF s4.res = "ok" THEN RdList(ts, s4, nin, KTxIn, <<>>) ELSE s4
        ins == s5.x
        s6 == Limit(RdVi(ts, s5), MaxTxOutPerMessage)
        s7 == IF s6.res = "ok" THEN RdList(ts, s6, s6.x, KTxOut, <<>>) ELSE s6
        outs == s7.x
        s8 == IF marker /\ s7.res = "ok" THEN RdList(ts, s7, nin, KWStack, <<>>) ELSE s7
        wits == s8.x
        zips == Len(ins) = Len(wits) /\ \A r \in 1..Len(ins) : ins[r].n = wits[r].n
        nowit == \A r \in 1..Len(wits) : RunsLen(wits[r].e.wit) = 0
        s9 == IF marker /\ s8.res = "ok"
              THEN (IF ~zips THEN Fail(s8, "misaligned")
                    ELSE IF nowit THEN Fail(s8, "malformed")     \* flag set, no witness: superfluous
                    ELSE s8)
              ELSE s8
        s10 == RdRaw(ts, s9, 4)                                 \* lock time
    IN  IF s10.res # "ok" THEN s10
        ELSE [s10 EXCEPT !.x =
                [ins |-> [r \in 1..Len(ins) |->
                             [n |-> ins[r].n,
                              e |-> [ss |-> ins[r].e.ss, wit |-> IF marker THEN wits[r].e.wit ELSE <<>>]]],
                 outs |-> outs]]

-----------------------------------------------------------------------------
(* blocks: value [txs: runs of tx]                                          *)

HeaderTokens == EncItems(HeaderItems, <<>>)
EncBlock(b, enc) ==
    HeaderTokens \o <<TVi("tx.count", RunsLen(b.txs))>>
    \o [r \in 1..Len(b.txs) |-> TRep("tx", b.txs[r].n, EncTx(b.txs[r].e, enc))]
BlockSize(b, enc) == 80 + ViW(RunsLen(b.txs))
                     + SumSeq([r \in 1..Len(b.txs) |-> b.txs[r].n * TxSizeEnc(b.txs[r].e, enc)])
DecBlock(ts, st, enc) ==
    LET s1 == RdItems(HeaderItems, ts, st, <<>>)
        s2 == Limit(RdVi(ts, s1), MaxTxPerBlock)
        s3 == IF s2.res = "ok" THEN RdList(ts, s2, s2.x, KTx(enc), <<>>) ELSE s2
    IN  IF s3.res = "ok" THEN [s3 EXCEPT !.x = [txs |-> s3.x]] ELSE s3
StripBlock(b) == [txs |-> [r \in 1..Len(b.txs) |-> [n |-> b.txs[r].n, e |-> StripTx(b.txs[r].e)]]]

-----------------------------------------------------------------------------
(* version: value [stage, ua, relay]                                       *)
(* stage 0: up to addr_recv; 1: + addr_from; 2: + nonce; 3: + user agent;  *)
(* 4: + start height; 5: + relay byte (value relay).  The shorter forms    *)
(* are the historic ones: a decoder takes a field as present when bytes    *)
(* remain.                                                                  *)

NetAddrNoTime(p) == <<TInt(p \o ".services", 8), TBytes(p \o ".ip", 16), TBe(p \o ".port", 2)>>
\* what an encoder writes for a value: always the full current layout
EncVersion(v, pver) ==
    <<TInt("pver", 4), TInt("services", 8), TInt("timestamp", 8)>> \o NetAddrNoTime("you")
    \o (IF v.stage >= 1 THEN NetAddrNoTime("me") ELSE <<TConst("me.zero", Zeros(26))>>)
    \o (IF v.stage >= 2 THEN <<TInt("nonce", 8)>> ELSE <<TConst("nonce.zero", Zeros(8))>>)
    \o (IF v.stage >= 3 THEN <<TVi("ua.len", v.ua)>> \o Bytes("ua", v.ua) ELSE <<TVi("ua.len", 0)>>)
    \o (IF v.stage >= 4 THEN <<TInt("lastblock", 4)>> ELSE <<TConst("lastblock.zero", Zeros(4))>>)
    \o (IF pver >= BIP0037Version
        THEN <<TConst("relay", <<IF v.stage >= 5 /\ v.relay = 0 THEN 0 ELSE 1>>)>>
        ELSE <<>>)
\* the layout of a value exactly as it was received (stage by stage)
RawVersion(v) ==
    <<TInt("pver", 4), TInt("services", 8), TInt("timestamp", 8)>> \o NetAddrNoTime("you")
    \o (IF v.stage >= 1 THEN NetAddrNoTime("me") ELSE <<>>)
    \o (IF v.stage >= 2 THEN <<TInt("nonce", 8)>> ELSE <<>>)
    \o (IF v.stage >= 3 THEN <<TVi("ua.len", v.ua)>> \o Bytes("ua", v.ua) ELSE <<>>)
    \o (IF v.stage >= 4 THEN <<TInt("lastblock", 4)>> ELSE <<>>)
    \o (IF v.stage >= 5 THEN <<TConst("relay", <<v.relay>>)>> ELSE <<>>)
VersionEncOK(v) == v.stage < 3 \/ v.ua <= MaxUserAgentLen
VersionSize(v, pver) == 4 + 8 + 8 + 26 + 26 + 8 + (IF v.stage >= 3 THEN ViW(v.ua) + v.ua ELSE 1) + 4
                        + (IF pver >= BIP0037Version THEN 1 ELSE 0)

DecVersion(ts, st) ==
    LET s0 == RdRaw(ts, RdRaw(ts, RdRaw(ts, RdRaw(ts, RdRaw(ts, RdRaw(ts, st, 4), 8), 8), 8), 16), 2)
        m1 == s0.res = "ok" /\ More(ts, s0)
        s1 == IF m1 THEN RdRaw(ts, RdRaw(ts, RdRaw(ts, s0, 8), 16), 2) ELSE s0
        m2 == m1 /\ s1.res = "ok" /\ More(ts, s1)
        s2 == IF m2 THEN RdRaw(ts, s1, 8) ELSE s1
        m3 == m2 /\ s2.res = "ok" /\ More(ts, s2)
        \* the user agent is read as a string (bounded by the general 32 MiB bound), then validated
        s3a == IF m3 THEN RdVar(ts, s2, MaxMessagePayload) ELSE s2
        s3 == IF m3 /\ s3a.res = "ok" /\ s3a.x > MaxUserAgentLen THEN Fail(s3a, "malformed") ELSE s3a
        ua == s3a.x
        m4 == m3 /\ s3.res = "ok" /\ More(ts, s3)
        s4 == IF m4 THEN RdRaw(ts, s3, 4) ELSE s3
        m5 == m4 /\ s4.res = "ok" /\ More(ts, s4)
        s5 == IF m5 THEN RdRaw(ts, s4, 1) ELSE s4
        stage == IF m5 THEN 5 ELSE IF m4 THEN 4 ELSE IF m3 THEN 3 ELSE IF m2 THEN 2 ELSE IF m1 THEN 1 ELSE 0
    IN  IF s5.res # "ok" THEN s5
        ELSE IF m5 /\ s5.x = Opaque THEN Fail(s5, "misaligned")
        ELSE [s5 EXCEPT !.x = [stage |-> stage, ua |-> IF m3 THEN ua ELSE 0, relay |-> IF m5 THEN s5.x ELSE 1]]

-----------------------------------------------------------------------------
(* reject: value [cmd (bytes), reason]; the hash follows iff cmd is block/tx *)

CmdBlockBytes == <<98, 108, 111, 99, 107>>
CmdTxBytes    == <<116, 120>>
RejectHasHash(cmd) == cmd \in {CmdBlockBytes, CmdTxBytes}
EncReject(v) ==
    <<TVi("cmd.len", Len(v.cmd))>> \o (IF v.cmd = <<>> THEN <<>> ELSE <<TConst("cmd", v.cmd)>>)
    \o <<TInt("code", 1), TVi("reason.len", v.reason)>> \o Bytes("reason", v.reason)
    \o (IF RejectHasHash(v.cmd) THEN <<TBytes("hash", 32)>> ELSE <<>>)
RejectSize(v) == ViW(Len(v.cmd)) + Len(v.cmd) + 1 + ViW(v.reason) + v.reason + (IF RejectHasHash(v.cmd) THEN 32 ELSE 0)
DecReject(ts, st) ==
    LET s1 == Limit(RdVi(ts, st), MaxMessagePayload)
        clen == s1.x
        cmd == IF s1.res = "ok" /\ clen > 0 /\ More(ts, s1) /\ ts[s1.i].k = "const" THEN ts[s1.i].b ELSE <<>>
        s2 == IF s1.res = "ok" THEN RdRaw(ts, s1, clen) ELSE s1
        s3 == RdVar(ts, RdRaw(ts, s2, 1), MaxMessagePayload)
        s4 == IF s3.res = "ok" /\ RejectHasHash(cmd) THEN RdRaw(ts, s3, 32) ELSE s3
    IN  IF s4.res # "ok" THEN s4
        ELSE IF clen > 0 /\ Len(cmd) # clen THEN Fail(s4, "misaligned")
        ELSE [s4 EXCEPT !.x = [cmd |-> cmd, reason |-> s3.x]]

-----------------------------------------------------------------------------
(* filterload: value [filter, hf]; the hash function count is checked       *)
(* after the whole message was read                                         *)

EncFilterLoad(v) == <<TVi("filter.len", v.filter)>> \o Bytes("filter", v.filter)
                    \o <<TIntV("hashfuncs", 4, v.hf), TInt("tweak", 4), TInt("flags", 1)>>
FilterLoadEncOK(v) == v.filter <= MaxFilterLoadFilterSize /\ ~Over(v.hf, MaxFilterLoadHashFuncs)
FilterLoadSize(v) == ViW(v.filter) + v.filter + 9
DecFilterLoad(ts, st) ==
    LET s1 == RdVar(ts, st, MaxFilterLoadFilterSize)
        s2 == RdRaw(ts, s1, 4)
        hf == s2.x
        s3 == RdRaw(ts, RdRaw(ts, s2, 4), 1)
    IN  IF s3.res # "ok" THEN s3
        ELSE IF hf = Opaque THEN Fail(s3, "misaligned")
        ELSE IF Over(hf, MaxFilterLoadHashFuncs) THEN Fail(s3, "malformed")
        ELSE [s3 EXCEPT !.x = [filter |-> s1.x, hf |-> hf]]

-----------------------------------------------------------------------------
(* addrv2: value [addrs: runs of [net, alen, v6, skip]]                     *)

A2Addr(e) ==
    IF e.net = 2 /\ e.alen = 16 /\ e.v6 # "" THEN
        LET p == CASE e.v6 = "onioncat" -> OnionCatPrefix [] e.v6 = "v4mapped" -> V4MappedPrefix [] OTHER -> PlainV6Prefix
        IN  <<TConst("a2.pfx", p), TBytes("a2.addr", 16 - Len(p))>>
    ELSE IF e.alen < 0 THEN <<>>             \* a length no message can hold: nothing follows
    ELSE Bytes("a2.addr", e.alen)
A2Body(e) == <<TInt("a2.time", 4), TVi("a2.services", e.svc), TConst("a2.net", <<e.net>>), TVi("a2.alen", e.alen)>>
             \o A2Addr(e) \o <<TBe("a2.port", 2)>>
EncAddrV2(v) == <<TVi("a2.count", RunsLen(v.addrs))>>
                \o [r \in 1..Len(v.addrs) |-> TRep("a2", v.addrs[r].n, A2Body(v.addrs[r].e))]
A2Size(e) == 4 + ViW(e.svc) + 1 + ViW(e.alen) + (IF e.alen < 0 THEN 0 ELSE e.alen) + 2
AddrV2Size(v) == ViW(RunsLen(v.addrs)) + SumSeq([r \in 1..Len(v.addrs) |-> v.addrs[r].n * A2Size(v.addrs[r].e)])
\* only these can be built and sent
A2Encodable(e) == e.net \in 1..4 /\ e.alen = NetLen[e.net] /\ e.v6 \in {"", "plain"}
DecAddrV2(ts, st) ==
    LET s1 == Limit(RdVi(ts, st), MaxAddrPerMsg)
        s2 == IF s1.res = "ok" THEN RdList(ts, s1, s1.x, KAddrV2, <<>>) ELSE s1
    IN  IF s2.res = "ok" THEN [s2 EXCEPT !.x = [addrs |-> s2.x]] ELSE s2
\* the decoded value keeps the service bits out of the comparison (they are opaque to the decoder)
A2Kept(v) == [addrs |-> SelectSeq(v.addrs, LAMBDA r : ~r.e.skip)]

-----------------------------------------------------------------------------
(* one entry point per direction                                            *)

Enc(type, pver, enc, m) ==
    CASE type \in GrammarTypes -> EncItems(Grammar(type, pver), m)
      [] type = "version"    -> EncVersion(m, pver)
      [] type = "reject"     -> EncReject(m)
      [] type = "filterload" -> EncFilterLoad(m)
      [] type = "addrv2"     -> EncAddrV2(m)
      [] type = "tx"         -> EncTx(m, enc)
      [] type = "block"      -> EncBlock(m, enc)
      [] type = "txout"      -> OutBody(m)          \* one transaction output on its own (ReadTxOut / WriteTxOut)

\* "ok" or "malformed": the encoder's own checks (not the frame's)
EncRes(type, pver, enc, m) ==
    IF pver < Gate(type) THEN "malformed"
    ELSE LET ok == CASE type \in GrammarTypes -> EncItemsOK(type, pver, Grammar(type, pver), m)
                     [] type = "version"    -> VersionEncOK(m)
                     [] type = "filterload" -> FilterLoadEncOK(m)
                     [] type = "addrv2"     -> RunsLen(m.addrs) <= MaxAddrPerMsg
                     [] OTHER -> TRUE
         IN  IF ok THEN "ok" ELSE "malformed"

Size(type, pver, enc, m) ==
    CASE type \in GrammarTypes -> SizeItems(Grammar(type, pver), m)
      [] type = "version"    -> VersionSize(m, pver)
      [] type = "reject"     -> RejectSize(m)
      [] type = "filterload" -> FilterLoadSize(m)
      [] type = "addrv2"     -> AddrV2Size(m)
      [] type = "tx"         -> TxSizeEnc(m, enc)
      [] type = "block"      -> BlockSize(m, enc)
      [] type = "txout"      -> OutSize(m)

\* [res, i, x]: verdict, next unread token, value
Dec(type, pver, enc, ts) ==
    IF pver < Gate(type) THEN Fail(St0, "malformed")
    ELSE CASE type \in GrammarTypes -> RdItems(Grammar(type, pver), ts, St0, <<>>)
           [] type = "version"    -> DecVersion(ts, St0)
           [] type = "reject"     -> DecReject(ts, St0)
           [] type = "filterload" -> DecFilterLoad(ts, St0)
           [] type = "addrv2"     -> DecAddrV2(ts, St0)
           [] type = "tx"         -> DecTx(ts, St0, enc)
           [] type = "block"      -> DecBlock(ts, St0, enc)
           [] type = "txout"      -> Elem(KTxOut, ts, St0)

\* what re-encoding a decoded value produces (addrv2: the ignored entries are gone)
ReEncAddrV2(x) ==
    IF \A r \in 1..Len(x.addrs) : ~x.addrs[r].e.skip THEN EncAddrV2(x)
    ELSE <<TVi("a2.count", RunsLen(A2Kept(x).addrs))>>
         \o [r \in 1..Len(x.addrs) |->
                IF x.addrs[r].e.skip THEN TSkip("a2", x.addrs[r].n)
                ELSE TRep("a2", x.addrs[r].n, A2Body(x.addrs[r].e))]
ReEnc(type, pver, enc, x) ==
    IF type = "addrv2" THEN ReEncAddrV2(x) ELSE Enc(type, pver, enc, x)

\* the value an encoding decodes back to
Back(type, enc, m) ==
    CASE type = "tx" /\ enc = "base"    -> StripTx(m)
      [] type = "block" /\ enc = "base" -> StripBlock(m)
      [] OTHER -> m

-----------------------------------------------------------------------------
(* framing                                                                   *)

FrameHeader == <<TInt("magic", 4), TBytes("command", 12), TInt("length", 4), TBytes("checksum", 4)>>

\* known[type]: the command names a message this protocol knows
\* fr = [hdr   bytes of the header that arrive (24 = all),
\*       len   the length field, magic/sum "ok"|"bad", cmd "ok"|"unknown"|"badutf8",
\*       avail payload bytes that arrive, pay the first len bytes as tokens]
ReadFrame(type, pver, enc, fr) ==
    IF fr.hdr < MessageHeaderSize THEN [res |-> "short", n |-> fr.hdr]
    ELSE IF Over(fr.len, MaxProtocolMessageLength) THEN [res |-> "malformed", n |-> 24]
    ELSE IF fr.magic # "ok" THEN [res |-> "malformed", n |-> 24]
    ELSE IF fr.cmd = "badutf8" THEN [res |-> "malformed", n |-> 24]
    ELSE IF fr.cmd # "ok" THEN [res |-> "unknown", n |-> 24]
    ELSE IF fr.len > MaxPayload(type, pver) THEN [res |-> "malformed", n |-> 24]
    ELSE IF fr.avail < fr.len THEN [res |-> "short", n |-> 24 + fr.avail]
    ELSE IF fr.sum # "ok" THEN [res |-> "malformed", n |-> 24 + fr.len]
    ELSE LET d == Dec(type, pver, enc, fr.pay)
         IN  IF d.res # "ok" THEN [res |-> d.res, n |-> 24 + fr.len]
             ELSE IF More(fr.pay, d) THEN [res |-> "malformed", n |-> 24 + fr.len]   \* not consumed exactly
             ELSE [res |-> "ok", n |-> 24 + fr.len]

\* writer: encode, then the payload bounds
WriteFrame(type, pver, enc, m) ==
    IF EncRes(type, pver, enc, m) # "ok" THEN "malformed"
    ELSE IF Size(type, pver, enc, m) > MaxProtocolMessageLength THEN "malformed"
    ELSE IF Size(type, pver, enc, m) > MaxPayload(type, pver) THEN "malformed"
    ELSE "ok"

-----------------------------------------------------------------------------
(* BIP324 (v2 transport) framing: the plaintext of a packet is the message   *)
(* type followed by the payload.  The type is ONE byte, the short id of the  *)
(* table below (ids are the positions, 1-based), or the byte 0x00 followed   *)
(* by the 12-byte zero-padded command.  A sender uses the short id when the  *)
(* command has one.                                                          *)

V2ShortIds == <<"addr", "block", "blocktxn", "cmpctblock", "feefilter", "filteradd", "filterclear",
                "filterload", "getblocks", "getblocktxn", "getdata", "getheaders", "headers", "inv",
                "mempool", "merkleblock", "notfound", "ping", "pong", "sendcmpct", "tx",
                "getcfilters", "cfilter", "getcfheaders", "cfheaders", "getcfcheckpt", "cfcheckpt", "addrv2">>
V2IdOf(type) == IF \E i \in 1..Len(V2ShortIds) : V2ShortIds[i] = type
                THEN CHOOSE i \in 1..Len(V2ShortIds) : V2ShortIds[i] = type ELSE 0
\* the command a first byte stands for ("" : none)
V2NameOf(id) == IF id \in 1..Len(V2ShortIds) THEN V2ShortIds[id] ELSE ""
V2LongHead == <<TConst("v2.long", <<0>>), TBytes("command", 12)>>
V2Head(type) == IF V2IdOf(type) > 0 THEN <<TConst("v2.id", <<V2IdOf(type)>>)>> ELSE V2LongHead

\* fr = [kind "empty" | "short" | "long",
\*       id    the first byte of a short form,
\*       head  bytes of the 13-byte long head that are there,
\*       cmd   long form: "ok" the command of the type | anything else: not a command,
\*       len   bytes after the head, pay those bytes as tokens]
\* type is the message the head names when it names one.
ReadV2(type, pver, enc, fr) ==
    IF fr.kind = "empty" THEN "malformed"
    ELSE IF fr.kind = "long" /\ fr.head < 13 THEN "malformed"
    ELSE IF fr.kind = "long" /\ fr.cmd # "ok" THEN "unknown"
    ELSE IF fr.kind = "short" /\ V2NameOf(fr.id) # type THEN "unknown"
    ELSE IF fr.len > MaxProtocolMessageLength THEN "malformed"
    ELSE IF fr.len > MaxPayload(type, pver) THEN "malformed"
    ELSE LET d == Dec(type, pver, enc, fr.pay)
         IN  IF d.res # "ok" THEN d.res
             ELSE IF More(fr.pay, d) THEN "malformed"
             ELSE "ok"

-----------------------------------------------------------------------------
(* structured mutations of a token string                                   *)

\* proper prefixes: every token boundary, one byte into and one byte before the end of
\* every token; inside a run: in its first, second and last element
RECURSIVE Truncs(_)
InTok(t) ==
    IF t.k = "rep" THEN
        LET as == IF t.n = 1 THEN <<0>> ELSE IF t.n = 2 THEN <<0, 1>> ELSE <<0, 1, t.n - 1>>
            pre(a) == IF a = 0 THEN <<>> ELSE <<TRep(t.l, a, t.body)>>
            inner == Truncs(t.body)
            one(a) == [j \in 1..(Len(inner) - (IF a = 0 THEN 1 ELSE 0)) |->
                          pre(a) \o inner[j + (IF a = 0 THEN 1 ELSE 0)]]
            RECURSIVE cat(_)
            cat(k) == IF k > Len(as) THEN <<>> ELSE one(as[k]) \o cat(k + 1)
        IN  cat(1)
    ELSE LET sz == TokSize(t)
         IN  IF sz <= 1 THEN <<>> ELSE IF sz = 2 THEN <<<<TCut(t, 1)>>>> ELSE <<<<TCut(t, 1)>>, <<TCut(t, sz - 1)>>>>
Truncs(ts) ==
    LET RECURSIVE at(_)
        at(i) == IF i >= Len(ts) THEN <<>>
                 ELSE <<SubSeq(ts, 1, i)>>
                      \o [j \in 1..Len(InTok(ts[i + 1])) |-> SubSeq(ts, 1, i) \o InTok(ts[i + 1])[j]]
                      \o at(i + 1)
    IN  at(0)

\* every CompactSize of the string with the tokens before it (those of the first element
\* when it sits inside a run)
RECURSIVE ViSites(_, _)
ViSites(ts, pre) ==
    IF ts = <<>> THEN <<>>
    ELSE LET t == Head(ts) IN
         (CASE t.k = "vi"  -> <<[pre |-> pre, t |-> t]>>
            [] t.k = "rep" -> ViSites(t.body, pre)
            [] OTHER -> <<>>)
         \o ViSites(Tail(ts), Append(pre, t))

\* the limit that governs a CompactSize field (0: none, the value is data)
ViLimit(f) ==
    CASE f = "inv.count" -> MaxInvPerMsg
      [] f = "loc.count" -> MaxBlockLocatorsPerMsg
      [] f = "hdr.count" -> MaxBlockHeadersPerMsg
      [] f = "h.txcount" -> 0
      [] f = "addr.count" -> MaxAddrPerMsg
      [] f = "a2.count" -> MaxAddrPerMsg
      [] f = "fh.count" -> MaxCFCheckptHeaders      \* cfheaders: see ViLimitT
      [] f = "mh.count" -> MaxTxPerBlock
      [] f = "flags.len" -> MaxFlagsPerMerkleBlock
      [] f = "data.len" -> MaxCFilterDataSize       \* filteradd: see ViLimitT
      [] f = "filter.len" -> MaxFilterLoadFilterSize
      [] f = "ua.len" -> MaxMessagePayload
      [] f \in {"cmd.len", "reason.len"} -> MaxMessagePayload
      [] f = "in.count" -> MaxTxInPerMessage
      [] f = "out.count" -> MaxTxOutPerMessage
      [] f = "w.count" -> MaxWitnessItemsPerInput
      [] f \in {"in.sslen", "out.pklen", "wi.len"} -> MaxScriptLen
      [] f = "tx.count" -> MaxTxPerBlock
      [] OTHER -> -1                                \* a2.services, a2.alen: data
ViLimitT(type, f) ==
    IF type = "cfheaders" /\ f = "fh.count" THEN MaxCFHeadersPerMsg
    ELSE IF type = "filteradd" /\ f = "data.len" THEN MaxFilterAddDataSize
    ELSE ViLimit(f)
=============================================================================
