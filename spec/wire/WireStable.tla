----------------------------- MODULE WireStable -----------------------------
(***************************************************************************)
(* C08: decoded values are stable.  A value a decoder has returned belongs *)
(* to the caller: no later decode may change it, so it re-encodes to the   *)
(* bytes it was decoded from however many decodes follow.                   *)
(*                                                                         *)
(* The decoders of transactions, blocks and outputs read scripts into a    *)
(* buffer borrowed from a pool (wire's scriptPool) and hand it back on     *)
(* return.  Implementation layer: one pooled buffer, `content` the stamp   *)
(* of the decode that wrote it last; a kept value either owns its script   *)
(* bytes (ref = 0: copied out before the buffer went back) or still points *)
(* into the pooled buffer (ref = the buffer).  StableLaw: whatever a kept   *)
(* value points to still holds what that value's decode wrote.  With       *)
(* Aliasing = {} (btcd: MsgTx copies all scripts into one allocation of    *)
(* its own, ReadTxOut reads into a buffer of its own) the law holds; with  *)
(* Aliasing = {"txout"} TLC shows <<txout, anything>> as counterexample.   *)
(*                                                                         *)
(* Each state is a history of decodes (kind, script size); the binder      *)
(* replays all of them in one process, keeps every decoded value, runs a   *)
(* burst of further decodes and then re-encodes every kept value.          *)
(***************************************************************************)
EXTENDS WireLayout, Json

CONSTANTS Tier, Aliasing

VARIABLES hist, content, kept
vars == <<hist, content, kept>>

Kinds == {"txout", "tx-base", "tx-witness", "block", "block-base"}
\* below / above the size up to which btcd used to pool script buffers, and larger
Sizes == {0, 1, 25, 513, 5000}
MaxLen == IF Tier = "thorough" THEN 3 ELSE 2
Buffer == 1

Run(n, e) == [n |-> n, e |-> e]
TxOf(s, wit) == [ins |-> <<Run(1, [ss |-> s, wit |-> IF wit THEN <<Run(1, [l |-> s]), Run(1, [l |-> 33])>> ELSE <<>>])>>,
                 outs |-> <<Run(1, [pk |-> s]), Run(1, [pk |-> 25])>>]
\* what is decoded: type and encoding of WireLayout, value, token string
Item(kind, s) ==
    LET type == CASE kind = "txout" -> "txout" [] kind \in {"tx-base", "tx-witness"} -> "tx" [] OTHER -> "block"
        enc == IF kind \in {"tx-base", "block-base"} THEN "base" ELSE "witness"
        m == CASE kind = "txout" -> [pk |-> s]
               [] kind = "tx-base" -> TxOf(s, FALSE)
               [] kind = "tx-witness" -> TxOf(s, TRUE)
               [] kind = "block" -> [txs |-> <<Run(1, TxOf(25, TRUE)), Run(1, TxOf(s, TRUE))>>]
               [] kind = "block-base" -> [txs |-> <<Run(2, TxOf(s, FALSE))>>]
    IN  [kind |-> kind, size |-> s, type |-> type, enc |-> enc, m |-> m, tokens |-> Enc(type, 0, enc, m)]
Table == [k \in Kinds |-> [s \in Sizes |-> Item(k, s)]]

Init == hist = <<>> /\ content = 0 /\ kept = <<>>
Decode(k, s) ==
    /\ Len(hist) < MaxLen
    /\ hist' = Append(hist, [kind |-> k, size |-> s])
    \* the decode borrows the buffer, fills it, builds the value, gives the buffer back
    /\ content' = Len(hist) + 1
    /\ kept' = Append(kept, [ref |-> IF k \in Aliasing THEN Buffer ELSE 0, at |-> Len(hist) + 1])
Next == \E k \in Kinds, s \in Sizes : Decode(k, s)
Spec == Init /\ [][Next]_vars

StableLaw == \A i \in 1..Len(kept) : kept[i].ref = 0 \/ content = kept[i].at
\* the items themselves decode to their values (so that the binder's expectation is the value)
ItemLaw ==
    hist = <<>> =>
        \A k \in Kinds, s \in Sizes :
            LET it == Table[k][s]
                d == Dec(it.type, 0, it.enc, it.tokens)
            IN  d.res = "ok" /\ d.x = it.m /\ d.i = Len(it.tokens) + 1

Emit ==
    /\ PrintT(ToJson(<<"HIST", hist>>))
    /\ (hist = <<>> => PrintT(ToJson(<<"ITEMS", [k \in Kinds |-> [s \in Sizes |-> Table[k][s]]], Huge>>)))
=============================================================================
