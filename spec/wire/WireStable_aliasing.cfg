\* a ReadTxOut whose result points into the pooled buffer: TLC must report StableLaw violated
SPECIFICATION Spec
CONSTANTS Tier = "quick"
          Aliasing = {"txout"}
INVARIANTS StableLaw
