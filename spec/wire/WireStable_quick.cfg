SPECIFICATION Spec
CONSTANTS Tier = "quick"
          Aliasing = {}
INVARIANTS StableLaw ItemLaw Emit
