SPECIFICATION Spec
CONSTANTS Tier = "thorough"
          Aliasing = {}
INVARIANTS StableLaw ItemLaw Emit
