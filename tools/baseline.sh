#!/bin/bash
# Run the repository's pinned baseline (guard OFF) on /repo's working tree and
# compare with /root/.vp/BASELINE.json's stable_pass list.
#   tools/baseline.sh [outdir]     (default: a fresh mktemp dir, removed at exit)
# Exit 0 when every stable test passed; prints the ones that did not.
set -u
out=${1:-$(mktemp -d /var/tmp/verif-baseline.XXXXXX)}
mkdir -p "$out"
export GOFLAGS=-mod=mod GOPROXY=off
: > "$out/all.json"
for m in $(cat /w/out/gomods.txt); do
  (cd /repo/$m && go test -json -vet=off -count=1 -timeout 25m ./... ) >> "$out/all.json" 2>"$out/stderr.$(echo $m | tr / _)"
done
python3 - "$out/all.json" <<'EOF'
import json, sys
res = {}
for line in open(sys.argv[1], errors='replace'):
    line = line.strip()
    if not line.startswith('{'):
        continue
    try:
        e = json.loads(line)
    except Exception:
        continue
    if e.get('Test') and e.get('Action') in ('pass', 'fail', 'skip'):
        res[e['Package'] + '::' + e['Test']] = e['Action']
b = json.load(open('/root/.vp/BASELINE.json'))
bad = [t for t in b['stable_pass'] if res.get(t) != 'pass']
print('stable tests: %d, passed now: %d, not passed: %d' % (len(b['stable_pass']), len(b['stable_pass']) - len(bad), len(bad)))
for t in bad:
    print('  NOT-PASS', t, res.get(t))
sys.exit(1 if bad else 0)
EOF
rc=$?
[ $# -eq 0 ] && rm -rf "$out"
exit $rc
