#!/usr/bin/env python3
"""collect_seed.py <srcdir> <id> <confirm-line> <detected-by text>: copy one seeded change into /verif/seeded/<id>/"""
import sys, os, json, shutil
src, sid, confirm, detected = sys.argv[1:5]
dst = f"/verif/seeded/{sid}"
os.makedirs(dst, exist_ok=True)
shutil.copy(f"{src}/patch.diff", f"{dst}/patch.diff")
shutil.copy(f"{src}/demo_test.go", f"{dst}/demo_test.go")
meta = json.load(open(f"{src}/meta.json"))
out = {
    "id": sid,
    "property": meta.get("property"),
    "summary": meta.get("summary"),
    "needs_to_manifest": meta.get("needs"),
    "files": meta.get("files"),
    "author": "independent sub-agent given only the property text and a scratch worktree",
    "author_ran": meta.get("ran"),
    "confirmed_by_me": confirm,
    "detected_by": detected,
}
json.dump(out, open(f"{dst}/meta.json", "w"), indent=1)
print("wrote", dst)
