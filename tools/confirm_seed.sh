#!/bin/sh
# usage: confirm_seed.sh <dir with patch.diff demo_test.go meta.json> <name>
# Confirms in a scratch worktree of /repo HEAD: demo passes on the clean tree,
# patch applies and builds, demo fails with the patch, the touched package's own
# tests still pass with the patch. Prints one summary line.
src=$1; name=$2
wt=/tmp/confirm-$name
export GOFLAGS=-mod=mod GOPROXY=off
git -C /repo worktree remove --force $wt 2>/dev/null
git -C /repo worktree add -q $wt HEAD || exit 2
pkg=$(head -1 $src/demo_test.go | sed -n 's#.*copy to: *\([^ ]*\).*#\1#p' | sed 's#/$##')
[ -z "$pkg" ] && pkg=blockchain
cp $src/demo_test.go $wt/$pkg/zz_seed_demo_test.go
tests=$(grep -o '^func Test[A-Za-z0-9_]*' $src/demo_test.go | sed 's/func //' | paste -sd'|')
cd $wt/$pkg
clean=$(go test -count=1 -run "^($tests)\$" . 2>&1 | tail -1)
cd $wt
git apply $src/patch.diff 2>/dev/null || { echo "$name: PATCH DOES NOT APPLY"; cd /; git -C /repo worktree remove --force $wt; exit 1; }
cd $wt/$pkg
build=$(go build ./... 2>&1 | tail -1)
mut=$(go test -count=1 -run "^($tests)\$" . 2>&1 | tail -1)
rm -f zz_seed_demo_test.go
suite=$(go test -count=1 -skip 'TestFlushOnPrune|TestInitConsistentState' . 2>&1 | tail -1)
echo "$name: clean=[$clean] build=[${build:-ok}] mutated=[$mut] suite=[$suite]"
cd /; git -C /repo worktree remove --force $wt
