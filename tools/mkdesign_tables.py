#!/usr/bin/env python3
"""Regenerates the generated tables of DESIGN.md (between <!-- gen:NAME --> markers)
from known-findings.json and seeded/*/meta.json."""
import json, glob, re, subprocess
D='/verif/DESIGN.md'
s=open(D).read()
kf=json.load(open('/verif/known-findings.json'))['findings']
def cell(t): return (t or '').replace('|','/').replace('\n',' ')
fixed='| property | key | fix commit | what failed |\n|---|---|---|---|\n'
for f in kf:
    if f['status']=='fixed':
        d=re.sub(r'^fixed: property=\S+ \S+ ','',f['description'])
        fixed+=f"| {f['property']} | {cell(f['key'])} | {f.get('commit','')} | {cell(d)[:260]} |\n"
known='| property | key | what fails |\n|---|---|---|\n'
for f in kf:
    if f['status']=='known':
        known+=f"| {f['property']} | {cell(f['key'])} | {cell(f['description'])[:300]} |\n"
seeds='| seeded change | property | caught by |\n|---|---|---|\n'
for m in sorted(glob.glob('/verif/seeded/*/meta.json')):
    j=json.load(open(m))
    seeds+=f"| {j['id']} | {j['property']} | {cell(j['detected_by'])} |\n"
def put(name,body):
    global s
    a=f'<!-- gen:{name} -->'; b=f'<!-- /gen:{name} -->'
    if a in s:
        s=s[:s.index(a)+len(a)]+'\n'+body+s[s.index(b):]
    else:
        s=s.rstrip()+f'\n\n{a}\n{body}{b}\n'
put('fixed',fixed); put('known',known); put('seeds',seeds)
open(D,'w').write(s)
print('fixed',sum(f['status']=='fixed' for f in kf),'known',sum(f['status']=='known' for f in kf),'seeds',len(glob.glob('/verif/seeded/*/meta.json')))
