#!/usr/bin/env python3
"""Regenerates MANIFEST.json from tools/manifest_src.json (claimed checks) and
properties.jsonl (everything else goes to not_applicable with its reason)."""
import json, os, sys
here = os.path.dirname(os.path.abspath(__file__))
root = os.path.dirname(here)
src = json.load(open(os.path.join(here, "manifest_src.json")))
props = [json.loads(l)["id"] for l in open(os.path.join(root, "properties.jsonl"))]
checks = []
for pid in props:
    c = src["checks"].get(pid)
    if not c:
        continue
    checks.append({
        "property_id": pid,
        "quick_cmd": f"./check.sh {pid} quick",
        "thorough_cmd": f"./check.sh {pid} thorough",
        "evidence_file": f"/verif/evidence/{pid}.json",
        "replay_cmd_template": f"./check.sh {pid} quick --replay {{path}}",
        "engine": c["engine"],
        "level_claimed": {"category": c["level"], "text": c["text"], "design_ref": c.get("design_ref", f"DESIGN.md §5 {pid}")},
        "level_note": c["note"],
        "technique": c["technique"],
    })
na = []
for pid in props:
    if pid in src["checks"]:
        continue
    na.append({"property_id": pid, "reason": src["not_applicable"].get(pid, "engine not built yet (DESIGN.md §9): not claimed rather than claimed with a weaker technique")})
m = {
    "version": 1,
    "setup_cmd": "./setup.sh",
    "hooks": src["hooks"],
    "engines": src["engines"],
    "checks": checks,
    "not_applicable": na,
    "notes": src["notes"],
}
json.dump(m, open(os.path.join(root, "MANIFEST.json"), "w"), indent=1)
print("checks:", [c["property_id"] for c in checks], "n/a:", [n["property_id"] for n in na])
