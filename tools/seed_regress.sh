#!/bin/bash
# Regression over the collected seeded changes: for every /verif/seeded/<id>/
# apply patch.diff in a scratch worktree of /repo HEAD and run the quick check
# of the property named in meta.json ("check" overrides it) against that
# worktree (VERIF_REPO).  Prints one line per seed: CAUGHT / MISSED / NOAPPLY.
#   tools/seed_regress.sh [id-glob]        e.g. tools/seed_regress.sh 'C04-*'
# Never touches /repo's working tree.  Evidence files are written by the runs:
# regenerate them afterwards with tools/sweep.sh on the clean tree.
cd /verif
pat=${1:-*}
for d in seeded/$pat/; do
  id=$(basename $d)
  prop=$(python3 -c "import json,sys; m=json.load(open('$d/meta.json')); print(m.get('check') or m['property'])")
  wt=/tmp/seedreg-$$-$id
  git -C /repo worktree add -q --detach $wt HEAD || { echo "$id: worktree failed"; continue; }
  if ! git -C $wt apply /verif/$d/patch.diff 2>/dev/null; then
    echo "$id: NOAPPLY (patch does not apply to HEAD: the change is already in the tree as a repair, or the code moved)"
    git -C /repo worktree remove --force $wt; continue
  fi
  out=$(VERIF_REPO=$wt ./check.sh $prop quick 2>&1)
  rc=$(echo "$out" | grep '^RESULT' | sed 's/.*exit=//')
  nv=$(echo "$out" | grep -c '^VIOLATION')
  key=$(echo "$out" | grep 'key=' | head -1 | sed 's/^ *key=\([^ ]*\).*/\1/' | cut -c1-80)
  if [ "$rc" = "1" ]; then echo "$id: CAUGHT by $prop quick ($nv violations, first key $key)";
  elif [ "$rc" = "0" ]; then echo "$id: MISSED by $prop quick";
  else echo "$id: INFRA rc=$rc $(echo "$out" | grep -i infra | head -1 | cut -c1-200)"; fi
  git -C /repo worktree remove --force $wt
done
