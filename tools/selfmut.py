#!/usr/bin/env python3
"""Sensitivity self-test: apply small hand-written breaking edits in a scratch
worktree and run the named checks against it with VERIF_REPO. Not part of any
registered check. usage: selfmut.py [name ...]"""
import subprocess, sys, os, json, time
MUTS = [
 ("tie-reorgs", "blockchain/chain.go", "if node.workSum.Cmp(b.bestChain.Tip().workSum) <= 0 {\n\t\t// Log information about how the block is forking the chain.", "if node.workSum.Cmp(b.bestChain.Tip().workSum) < 0 {\n\t\t// Log information about how the block is forking the chain.", ["C02"]),
 ("reorg-ignores-invalid-ancestor", "blockchain/chain.go", "\t\tif b.index.NodeStatus(n).KnownInvalid() {\n\t\t\tinvalidChain = true\n\t\t\tbreak\n\t\t}", "\t\tif b.index.NodeStatus(n).KnownInvalid() && n == node {\n\t\t\tinvalidChain = true\n\t\t\tbreak\n\t\t}", ["C02","C01"]),
 ("spent-not-deleted-on-flush", "blockchain/utxocache.go", "case entry == nil || entry.IsSpent():", "case entry == nil:", ["C03"]),
 ("disconnect-no-flush", "blockchain/chain.go", "\t\terr = b.utxoCache.flush(dbTx, FlushRequired, state)\n\t\tif err != nil {\n\t\t\treturn err\n\t\t}\n\n\t\t// Update the transaction spend journal by removing the record", "\t\terr = b.utxoCache.flush(dbTx, FlushIfNeeded, state)\n\t\tif err != nil {\n\t\t\treturn err\n\t\t}\n\n\t\t// Update the transaction spend journal by removing the record", ["C03","C04"]),
 ("locate-stop-off-by-one", "blockchain/chain.go", "stopNode.height >= startNode.height {\n\n\t\ttotal = uint32((stopNode.height - startNode.height) + 1)", "stopNode.height >= startNode.height {\n\n\t\ttotal = uint32(stopNode.height - startNode.height)", ["C17"]),
 ("locator-doubling-late", "blockchain/chainview.go", "if len(locator) > 10 {", "if len(locator) > 11 {", ["C17"]),
 ("header-tie-switches", "blockchain/accept.go", "if node.workSum.Cmp(b.bestHeader.Tip().workSum) <= 0 {", "if node.workSum.Cmp(b.bestHeader.Tip().workSum) < 0 {", ["C17"]),
 ("orphan-sanity-skipped", "blockchain/process.go", "\tif !prevHashExists {\n\t\tlog.Infof(\"Adding orphan block %v with parent %v\", blockHash, prevHash)\n\t\tb.addOrphanBlock(block)", "\tif !prevHashExists {\n\t\tlog.Infof(\"Adding orphan block %v with parent %v\", blockHash, prevHash)\n\t\tb.addOrphanBlock(block)\n\t\t_ = err", ["C01"]),
 ("coinbase-maturity-off-by-one", "blockchain/validate.go", "if blocksSincePrev < coinbaseMaturity {", "if blocksSincePrev < coinbaseMaturity-1 {", ["C01"]),
 ("marker-before-data", "blockchain/utxocache.go", "\t// If the entry is nil or spent, remove the entry from the database\n\t\t\t// and the cache.", "\t// If the entry is nil or spent, remove the entry from the database\n\t\t\t// and the cache.\n", ["C04"]),
]
def sh(cmd, **kw):
    return subprocess.run(cmd, shell=True, capture_output=True, text=True, **kw)
names = sys.argv[1:]
res = {}
for name, path, old, new, props in MUTS:
    if names and name not in names: continue
    wt = f"/tmp/selfmut-{name}"
    sh(f"git -C /repo worktree remove --force {wt}")
    r = sh(f"git -C /repo worktree add {wt} HEAD")
    p = os.path.join(wt, path)
    s = open(p).read()
    if old not in s:
        print(name, "PATTERN NOT FOUND"); sh(f"git -C /repo worktree remove --force {wt}"); continue
    open(p, "w").write(s.replace(old, new, 1))
    b = sh("GOFLAGS=-mod=mod GOPROXY=off go build ./blockchain/", cwd=wt)
    if b.returncode != 0:
        print(name, "DOES NOT BUILD", b.stderr[-300:]); sh(f"git -C /repo worktree remove --force {wt}"); continue
    for prop in props:
        t0 = time.time()
        r = sh(f"VERIF_REPO={wt} /verif/check.sh {prop} quick")
        viol = [l for l in r.stdout.splitlines() if l.startswith("VIOLATION")]
        keys = sorted({l.split("key=")[1].split(":")[0] + ":" + l.split("key=")[1].split(":")[1].split(" ")[0] for l in r.stdout.splitlines() if "key=" in l})[:4]
        print(f"{name:34s} {prop} exit={r.returncode} violations={len(viol)} {time.time()-t0:.0f}s {keys}", flush=True)
        res[f"{name}/{prop}"] = r.returncode
    sh(f"git -C /repo worktree remove --force {wt}")
json.dump(res, open("/tmp/selfmut-results.json", "w"), indent=1)
