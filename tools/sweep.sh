#!/bin/sh
# Runs every claimed check's quick (or $1) tier on /repo as it is, one after the other; one summary line each.
tier=${1:-quick}
cd /verif
for p in $(python3 -c "import json;print(' '.join(c['property_id'] for c in json.load(open('MANIFEST.json'))['checks']))"); do
  t0=$(date +%s)
  out=$(./check.sh $p $tier 2>&1); rc=$?
  echo "$p rc=$rc $(($(date +%s)-t0))s known=$(echo "$out" | grep -c '^KNOWN-FINDING') viol=$(echo "$out" | grep -c '^VIOLATION') | $(echo "$out" | grep '^RESULT' | cut -c1-160)"
done
